"""Subclass with extra public members (C16).  NB: deliberately *without* ``from __future__ import
annotations`` - the parser needs evaluated annotations (see finding F-C16)."""


def extended_class(cls, variant=0):
    """A subclass adding public members with properly evaluated annotations (C16).
    variant 1 is a DIFFERENT class with the same __module__/__qualname__/__name__ but other members."""
    if variant == 1:
        class Extended(cls):  # noqa: F811
            def other_method(self, flag: bool = False, times: int = 2) -> str:
                """Another extra method."""
                return "other" * times

            @property
            def backlog(self) -> int:
                """Read-only property of the second variant."""
                return 11

        Extended.__name__ = cls.__name__
        return Extended

    class Extended(cls):
        def extra_method(self, count: int, label: str = "x") -> str:
            """Returns a label repeated count times."""
            return label * count

        @property
        def extra_prop(self) -> int:
            """An additional read/write property."""
            return getattr(self, "_extra", 7)

        @extra_prop.setter
        def extra_prop(self, value: int) -> None:
            """Sets the additional property."""
            self._extra = value

        @property
        def extra_ro(self) -> str:
            """A read-only extra property."""
            return "ro"

        def undocumented(self, n: int = 1) -> int:
            return n

        @property
        def bare_prop(self) -> int:
            return 3

        def _hidden(self) -> None:
            """Not public."""

    Extended.__name__ = cls.__name__
    return Extended
