"""Subclass with extra public members (C16).  NB: deliberately *without* ``from __future__ import
annotations`` - the parser needs evaluated annotations (see finding F-C16)."""


from typing import Annotated


class _Between:
    """Metadata for typing.Annotated that defines __eq__ without __hash__ (like an ordinary eq-dataclass): unhashable."""
    __hash__ = None

    def __init__(self, lo, hi):
        self.lo, self.hi = lo, hi

    def __eq__(self, other):
        return isinstance(other, _Between) and (self.lo, self.hi) == (other.lo, other.hi)


def extended_class(cls, variant=0):
    """A subclass adding public members with properly evaluated annotations (C16).
    variant 1 is a DIFFERENT class with the same __module__/__qualname__/__name__ but other members."""
    if variant == 1:
        class Extended(cls):  # noqa: F811
            def other_method(self, flag: bool = False, times: int = 2) -> str:
                """Another extra method."""
                return "other" * times

            @property
            def backlog(self) -> int:
                """Read-only property of the second variant."""
                return 11

        return _publish(Extended, cls, register=False)

    class Extended(cls):
        def extra_method(self, count: int, label: str = "x") -> str:
            """Returns a label repeated count times."""
            return label * count

        @property
        def extra_prop(self) -> int:
            """An additional read/write property."""
            return getattr(self, "_extra", 7)

        @extra_prop.setter
        def extra_prop(self, value: int) -> None:
            """Sets the additional property."""
            self._extra = value

        @property
        def extra_ro(self) -> str:
            """A read-only extra property."""
            return "ro"

        def undocumented(self, n: int = 1) -> int:
            return n

        def rescale(self, f: int, e: int = 0, s: str = "x", el: int = 1) -> int:
            """Parameters whose names are substrings of 'self'."""
            return f * 2 + e + el

        def lock(self) -> None:        # overrides an inherited public method WITHOUT repeating its docstring
            return super().lock()

        @property
        def bare_prop(self) -> int:
            return 3

        def throttle(self, percent: Annotated[int, _Between(0, 100)] = 50) -> int:
            """A parameter whose annotation cannot be hashed."""
            return percent

        def make_report(self, depth: int = 1) -> "Report":  # noqa: F821 (a forward reference only type checkers resolve)
            """Returns something whose type only the type checker knows."""
            return depth

        def set_QoS(self, level: int = 0) -> int:
            """A public method whose name has upper-case letters."""
            return level

        @property
        def maxRate(self) -> int:
            """A public property whose name has upper-case letters."""
            return 5

        @staticmethod
        def slots_for(jobs: int = 1, spare: int = 0) -> int:
            """A public method that happens to be a staticmethod."""
            return jobs + spare

        def drain(self, graceful: bool = True, rounds: int = 1) -> int:
            """A switch that is on by default."""
            return rounds if graceful else -rounds

        def drained(self) -> object:
            """Hands back something awaitable that the owner resolves later; the command's answer is what str() makes of it."""
            import asyncio
            return asyncio.get_event_loop().create_future()

        def blank_doc(self, n: int = 0) -> int:
            ""
            return n

        @property
        def spaced_doc(self) -> int:
            """   
            """
            return 7

        def _hidden(self) -> None:
            """Not public."""

    return _publish(Extended, cls, register=True)


def _publish(ext, base, register):
    """Give the class (and its functions) module-level qualified names, as a class written at the top
    level of a module would have - inspect.getdoc() can only inherit docstrings for such classes.
    Both variants get the SAME module and qualified name; only variant 0 is reachable under it."""
    import types
    ext.__name__ = base.__name__
    ext.__qualname__ = "Extended"
    ext.__module__ = __name__
    for v in vars(ext).values():
        fs = [v.fget, v.fset] if isinstance(v, property) else [v.__func__ if isinstance(v, staticmethod) else v]
        for f in fs:
            if isinstance(f, types.FunctionType):
                f.__qualname__ = "Extended." + f.__name__
    if register:
        globals()["Extended"] = ext
    return ext
