"""Engine for the pool properties C01..C15: units = seeded random runs, single-fault placement
sweeps over seeded base runs, directed scenario families, and hazard families for recorded findings."""
from __future__ import annotations

import copy
import itertools
import random
import re

from .gen import Gen, PhasedGen, BigGen, ScaleGen, TSweepGen, POINTS
from .poolsim import Sim, run_sim
from .shrink import shrink
from .util import subseed

BUDGET = {"quick": 45, "thorough": 600}
CHUNK = {"quick": 60, "thorough": 120}

QUICK_RANDOM = 10000
QUICK_SWEEPS = 100

# which statistics make a run non-trivial for a property (any of the keys > 0)
NONTRIVIAL = {
    "C01": ("probe:spawner_blocked_on_full_pool",),
    "C02": ("fault:task_cancelled", "fault:worker_raises", "probe:flush_overlaps_open_callback"),
    "C03": ("fault:task_cancelled",),
    "C04": ("probe:spawner_blocked_on_full_pool", "op:lock"),
    "C05": ("probe:map_out_of_order_completion", "probe:map_blocked_on_pool"),
    "C06": ("op:cancel",),
    "C07": ("op:cancel_group", "op:cancel_all"),
    "C08": ("op:gather",),
    "C09": ("fault:rejected_request",),
    "C10": ("op:cancel_group", "op:cancel_all", "multi_request"),
    "C11": ("multi_request",),
    "C12": ("fault:worker_raises", "fault:callback_raises", "fault:factory_raises", "fault:bad_element"),
    "C13": ("op:flush",),
    "C14": ("op:stop",),
    "C15": ("op:size_set", "probe:spawner_blocked_on_full_pool"),
}

RULES = {
    "C01": "seeded swarm runs + placement sweeps; non-trivial = at some idle point a spawner was blocked on a full finite pool; distinct by event-log digest",
    "C02": "non-trivial = a cancellation, a task exception or a flush overlapping an open callback actually occurred; distinct by event-log digest",
    "C03": "non-trivial = at least one worker observed a cancellation (so both callback kinds are exercised); distinct by event-log digest",
    "C04": "non-trivial = an apply/start spawner had to wait for room at an idle point, or a lock was executed; distinct by event-log digest",
    "C05": "non-trivial = map tasks completed out of start order, or the pool (not num_concurrent) was the binding limit; distinct by event-log digest",
    "C06": "non-trivial = a cancel(ids) call was executed; distinct by event-log digest",
    "C07": "non-trivial = a cancel_group/cancel_all was executed; distinct by event-log digest",
    "C08": "non-trivial = a gather_and_close was started; distinct by event-log digest",
    "C09": "non-trivial = at least one request was rejected; distinct by event-log digest",
    "C10": "non-trivial = two or more requests accepted or a group cancelled; distinct by event-log digest",
    "C11": "non-trivial = two or more requests (interleaved spawners / several pools); distinct by event-log digest",
    "C12": "non-trivial = an injected exception (worker, callback, factory call, bad element) actually fired; distinct by event-log digest",
    "C13": "non-trivial = a flush was executed; distinct by event-log digest",
    "C14": "non-trivial = a stop()/stop_all() was executed; distinct by event-log digest",
    "C15": "directed family over (class, old, new, tasks) x timing/history incl. re-entrant access from end callbacks, plus seeded random runs and cancel sweeps ending with a pool_size read on the idle pool; non-trivial = pool_size was assigned, or a spawner had been blocked on the full pool; distinct by event-log digest",
}

# Random runs in which the trigger of ONE recorded finding is NOT steered around, for the properties
# whose oracles that finding does not touch: keeps them strict in the region clean runs avoid.
UNSTEER = {
    "F-EARLY": ("C01", "C06", "C07", "C09", "C10", "C11", "C13", "C14"),
    "F-LOCK": ("C01", "C02", "C03", "C05", "C06", "C07", "C09", "C10", "C11", "C14", "C15"),
}
QUICK_HRAND = 2000
QUICK_PHASED = 3000
QUICK_BIG = 400
QUICK_HUGE = 600

SWEEP_STEPS = {
    "C01": ["spawn2", "cancel_all"],
    "C02": ["cancel_all", "flush", "cancel_live"],
    "C03": ["cancel_all", "cancel_live"],
    "C04": ["cancel_other", "spawn2"],
    "C05": ["cancel_live", "spawn2"],
    "C06": ["cancel_live", "cancel_mixed"],
    "C07": ["cancel_group", "cancel_all"],
    "C08": ["gather", "gather_wait"],
    "C09": ["bad_spawn"],
    "C10": ["cancel_group", "spawn2"],
    "C11": ["spawn2", "flush"],
    "C12": ["flush", "gather"],
    "C13": ["flush", "flush2"],
    "C14": ["stop1", "stop2"],
    "C15": ["cancel_group", "cancel_all", "cancel_live"],
}


def is_nontrivial(prop, sim):
    st = sim.stats
    for k in NONTRIVIAL.get(prop, ()):
        if k == "multi_request":
            if sum(1 for r in sim.reqs.values() if r.accepted_seq is not None and not r.probe) >= 2:
                return True
        elif st.get(k):
            return True
    return False


# ----------------------------------------------------------------------------- units
def units(prop, tier, seed):
    order = itertools.count()
    if prop == "C15":
        from . import size_family
        gen = size_family.units(prop, tier, seed, order)
        if tier == "quick":
            yield from gen
            for i in range(QUICK_HUGE // 2):
                yield ("huge", (i, subseed(seed, prop, "huge", i)), next(order))
            for tag, props in UNSTEER.items():
                if prop in props:
                    for i in range(QUICK_HRAND):
                        yield ("hrand", (tag, subseed(seed, prop, "hrand", tag, i)), next(order))
            for i in range(QUICK_SWEEPS // 2):
                yield ("sweep", subseed(seed, prop, "sweep", i), next(order))
            for i in range(QUICK_RANDOM // 2):
                yield ("rand", subseed(seed, prop, "rand", i), next(order))
        else:
            i = 0
            for u in gen:
                yield u
                i += 1
                if i % 4 == 0:
                    yield ("rand", subseed(seed, prop, "rand", i), next(order))
                if i % 200 == 0:
                    yield ("sweep", subseed(seed, prop, "sweep", i), next(order))
                if i % 50 == 0:
                    yield ("huge", (i // 50, subseed(seed, prop, "huge", i)), next(order))
        return
    from . import hazards
    for u in hazards.units(prop, tier, seed):
        yield ("hazard", u, next(order))
    un = [tag for tag, props in UNSTEER.items() if prop in props]
    if tier == "quick":
        for i in range(QUICK_SWEEPS):
            yield ("sweep", subseed(seed, prop, "sweep", i), next(order))
            if i % 3 == 0:
                yield ("sweep2", subseed(seed, prop, "sweep2", i), next(order))
        for tag in un:
            for i in range(QUICK_HRAND):
                yield ("hrand", (tag, subseed(seed, prop, "hrand", tag, i)), next(order))
        for i in range(QUICK_HUGE):
            yield ("huge", (i, subseed(seed, prop, "huge", i)), next(order))
        for K in TSweepGen.KS:
            for off in range(12):
                for variant in range(3):
                    yield ("tsweep", (K, off, variant, subseed(seed, prop, "tsweep", K, off, variant)), next(order))
        for i in range(QUICK_BIG):
            yield ("big", subseed(seed, prop, "big", i), next(order))
        for i in range(QUICK_PHASED):
            yield ("phased", subseed(seed, prop, "phased", i), next(order))
        for i in range(QUICK_RANDOM):
            yield ("rand", subseed(seed, prop, "rand", i), next(order))
    else:
        i = 0
        while True:
            for _ in range(50):
                yield ("rand", subseed(seed, prop, "rand", i), next(order))
                i += 1
            for _ in range(15):
                yield ("phased", subseed(seed, prop, "phased", i), next(order))
                i += 1
            for _ in range(2):
                yield ("big", subseed(seed, prop, "big", i), next(order))
                i += 1
            yield ("huge", (i // 68, subseed(seed, prop, "huge", i)), next(order))
            i += 1
            K = TSweepGen.KS[(i // 68) % len(TSweepGen.KS)]
            yield ("tsweep", (K, (i // 68) % 14, i % 3, subseed(seed, prop, "tsweep", i)), next(order))
            for tag in un:
                for _ in range(8):
                    yield ("hrand", (tag, subseed(seed, prop, "hrand", tag, i)), next(order))
                    i += 1
            yield ("sweep", subseed(seed, prop, "sweep", i), next(order))
            if i % 3 == 0:
                yield ("sweep2", subseed(seed, prop, "sweep2", i), next(order))


def _account(prop, sim, agg, unit_order, kind, sample=True):
    agg.evaluations += 1
    st = sim.stats
    for k, v in st.items():
        if k.startswith(("fault:", "probe:", "place:", "steered:", "reentrant:", "pt:", "op:", "skipped:")) \
                or k in ("handles", "iterations", "idle_points", "capacity_probes", "no_quiescence", "warnings"):
            agg.stats[k] += v
    agg.stats["kind:" + kind] += 1
    agg.states |= sim.states
    if is_nontrivial(prop, sim):
        agg.nontrivial.add(int(sim.digest(), 16))
        if sample and len(agg.samples) < 3:
            agg.samples.append({"seed": sim.run.get("seed"), "config": sim.run["config"],
                                "steps": sim.run["steps"][:40], "inject": sim.run.get("inject", []),
                                "handles": sim.loop.handles_run})
    for v in sim.viol:
        if v["prop"] == prop:
            if len(agg.violations) < 5:
                agg.violations.append({"order": unit_order, "prop": prop, "oracle": v["oracle"], "msg": v["msg"],
                                       "run": copy.deepcopy(sim.run), "engine": "pool"})
            break


def exec_unit(prop, unit, agg):
    kind, arg, order = unit
    if kind == "rand":
        g = Gen(arg, prop, True)
        run = {"prop": prop, "seed": arg, "clean": True, "config": g.make_config(), "steps": []}
        if g.own_iter_cancel:
            run["own_iter_cancel"] = True
        sim = Sim(run, {prop})
        sim.execute(g.next_step)
        _account(prop, sim, agg, order, "rand")
    elif kind == "tsweep":
        K, off, variant, sd = arg
        g = TSweepGen(sd, prop, K, off, variant)
        run = {"prop": prop, "seed": sd, "clean": True, "config": g.make_config(), "steps": [], "tsweep": [K, off, variant],
               "max_handles": 400000, "idle_cap": 200000}
        sim = Sim(run, {prop})
        sim.execute(g.next_step)
        agg.stats["probe:tsweep_K%d" % K] += 1
        if sim.hit_cap:
            agg.stats["probe:huge_run_hit_handle_cap"] += 1
        _account(prop, sim, agg, order, "tsweep", sample=False)
    elif kind == "huge":
        idx, arg = arg
        g = ScaleGen(arg, prop, True, index=idx)
        run = {"prop": prop, "seed": arg, "clean": True, "config": g.make_config(), "steps": [], "huge": g.template,
               "max_handles": 400000, "idle_cap": 200000}
        sim = Sim(run, {prop})
        sim.execute(g.next_step)
        agg.stats["probe:huge_" + g.template] += 1
        agg.stats["probe:huge_tasks_created"] += sum(len(pc.tasks) for pc in sim.pools)
        if sim.hit_cap:
            agg.stats["probe:huge_run_hit_handle_cap"] += 1
        _account(prop, sim, agg, order, "huge", sample=False)
    elif kind == "big":
        g = BigGen(arg, prop, True)
        run = {"prop": prop, "seed": arg, "clean": True, "config": g.make_config(), "steps": [], "big": True, "max_handles": 60000}
        sim = Sim(run, {prop})
        sim.execute(g.next_step)
        agg.stats["probe:big_tasks_created"] += sum(len(pc.tasks) for pc in sim.pools)
        if any(len(pc.tasks) >= 100 for pc in sim.pools):
            agg.stats["probe:big_run_with_task_ids_over_100"] += 1
        if any(re.search(r"-group-\d\d+$", n or "") for pc in sim.pools for n in pc.live_names):
            agg.stats["probe:big_run_with_group_index_over_9"] += 1
        if sim.hit_cap:
            agg.stats["probe:big_run_hit_handle_cap"] += 1
        _account(prop, sim, agg, order, "big")
    elif kind == "phased":
        g = PhasedGen(arg, prop, True)
        run = {"prop": prop, "seed": arg, "clean": True, "config": g.make_config(), "steps": [], "phased": True}
        sim = Sim(run, {prop})
        sim.execute(g.next_step)
        _account(prop, sim, agg, order, "phased")
    elif kind == "hrand":
        tag, sd = arg
        g = Gen(sd, prop, False)
        steer = [t for t in ("F-EARLY", "F-LOCK") if t != tag]
        run = {"prop": prop, "seed": sd, "clean": False, "steer": steer, "config": g.make_config(), "steps": []}
        sim = Sim(run, {prop})
        sim.execute(g.next_step)
        _account(prop, sim, agg, order, "hrand:" + tag)
    elif kind == "sweep":
        sweep_unit(prop, arg, agg, order)
    elif kind == "sweep2":
        sweep_unit(prop, arg, agg, order, pairs=True)
    elif kind == "hazard":
        from . import hazards
        hazards.exec_unit(prop, arg, agg, order)
    elif kind == "size":
        from . import size_family
        size_family.exec_unit(prop, arg, agg, order)
    else:
        raise ValueError(kind)


# ----------------------------------------------------------------------------- sweeps
def _sweep_step(kind, rng, base):
    """Build the extra step for a sweep from the base run's requests."""
    reqs = [r for r in base.reqs.values() if r.accepted_seq is not None and not r.probe]
    pcs = base.pools
    pc = rng.choice(pcs)
    p = pc.idx
    mine = [r for r in reqs if r.pc is pc]
    if kind == "cancel_all":
        return {"op": "cancel_all", "p": p}
    if kind == "cancel_group":
        if not mine:
            return None
        return {"op": "cancel_group", "p": p, "r": rng.choice(mine).label}
    if kind in ("cancel_live", "cancel_other"):
        refs = []
        for r in rng.sample(mine, min(len(mine), 2)):
            for k in rng.sample(range(6), 2):
                refs.append(["t", r.label, k])
        if not refs:
            return None
        return {"op": "cancel", "p": p, "ids": refs[:rng.choice([1, 2, 3])]}
    if kind == "cancel_mixed":
        refs = [["t", r.label, rng.randrange(5)] for r in mine[:3]] + [["raw", rng.choice([-1, 999])]]
        rng.shuffle(refs)
        return {"op": "cancel", "p": p, "ids": refs}
    if kind == "flush":
        return {"op": "flush", "p": p, "rex": rng.choice([0, 1])}
    if kind == "flush2":
        return [{"op": "flush", "p": p, "rex": 1}, {"op": "flush", "p": p, "rex": 1}]
    if kind == "gather":
        return {"op": "gather", "p": p, "rex": rng.choice([0, 0, 1])}
    if kind == "gather_wait":
        return [{"op": "until_closed", "p": p}, {"op": "gather", "p": p, "rex": 1}, {"op": "until_closed", "p": p}]
    if kind == "stop1":
        return {"op": "stop", "p": p, "n": 1}
    if kind == "stop2":
        return {"op": "stop", "p": p, "n": rng.choice([2, 3])}
    if kind == "spawn2":
        if pc.cls == "S":
            return {"op": "spawn", "p": p, "r": 900, "kind": "start", "num": 2}
        return {"op": "spawn", "p": p, "r": 900, "kind": rng.choice(["apply", "map"]), "num": 2,
                "elems": [0, 0, 0], "nc": 2, "sc": [{"g": 1}], "ecb": "s", "ccb": "s"}
    if kind == "bad_spawn":
        if pc.cls == "S":
            return [{"op": "lock", "p": p}, {"op": "spawn", "p": p, "r": 900, "kind": "start", "num": 2},
                    {"op": "unlock", "p": p}]
        return [{"op": "spawn", "p": p, "r": 900, "kind": "map", "elems": [0, 0], "nc": 0, "sc": [{"g": 1}]},
                {"op": "spawn", "p": p, "r": 901, "kind": "apply", "num": 2, "bad": "notcoro"}]
    return None


GENERIC_EXTRAS = ["cancel_all", "cancel_group", "cancel_live", "flush", "spawn2"]


def sweep_unit(prop, seed, agg, order, pairs=False):
    rng = random.Random(seed)
    g = Gen(seed, prop, True)
    g.nsteps = min(g.nsteps, rng.choice([8, 12, 18, 24]))
    g.reentrant = 0.0
    base_run = {"prop": prop, "seed": seed, "clean": True, "config": g.make_config(), "steps": []}
    base = Sim(base_run, {prop})
    base.execute(g.next_step)
    _account(prop, base, agg, order, "sweep_base")
    if base.viol:
        return
    kinds = SWEEP_STEPS.get(prop)
    if not kinds:
        return
    kind = rng.choice(kinds)
    extra = _sweep_step(kind, rng, base)
    if extra is None:
        return
    extras = extra if isinstance(extra, list) else [extra]
    L = getattr(base, "handles_before_quiesce", base.loop.handles_run)
    L = min(L, 160)
    base_steps = base_run["steps"]
    if pairs:
        # two faults: the property's sweep step and a second (generic) one, at sampled pairs of positions
        second = _sweep_step(rng.choice(GENERIC_EXTRAS), rng, base)
        if second is None or isinstance(second, list):
            return
        if second.get("r") == 900:
            second = dict(second, r=901)
        for _ in range(80):
            h1, h2 = rng.randrange(L + 1), rng.randrange(L + 1)
            run = {"prop": prop, "seed": seed, "clean": True, "config": base_run["config"], "steps": base_steps,
                   "inject": [{"h": h1, "step": e} for e in extras] + [{"h": h2, "step": second}], "sweep": kind + "+pair"}
            sim = run_sim(copy.deepcopy(run), {prop})
            agg.stats["sweep_pair_positions"] += 1
            _account(prop, sim, agg, order, "sweep2:" + kind, sample=False)
            if sim.viol:
                return
        return
    for h in range(L + 1):
        run = {"prop": prop, "seed": seed, "clean": True, "config": base_run["config"],
               "steps": base_steps, "inject": [{"h": h, "step": e} for e in extras], "sweep": kind}
        sim = run_sim(copy.deepcopy(run), {prop})
        agg.stats["sweep_positions"] += 1
        _account(prop, sim, agg, order, "sweep:" + kind, sample=(h == L // 2))
        if sim.viol:
            return
    # re-entrant placements: bind the step to the n-th occurrence of every kind of op point
    if len(extras) == 1:
        for pt in POINTS:
            cnt = min(base.stats.get("pt:" + pt, 0), 5)
            for nth in range(1, cnt + 1):
                e = dict(extras[0])
                e["at"] = [pt, nth]
                run = {"prop": prop, "seed": seed, "clean": True, "config": base_run["config"],
                       "steps": [e] + list(base_steps), "sweep": kind + "@" + pt}
                sim = run_sim(copy.deepcopy(run), {prop})
                agg.stats["sweep_positions_reentrant"] += 1
                _account(prop, sim, agg, order, "sweep:" + kind, sample=False)
                if sim.viol:
                    return


# ----------------------------------------------------------------------------- replay / minimise
def replay(prop, payload):
    run = copy.deepcopy(payload["run"])
    if payload.get("family"):
        from . import hazards, size_family
        mod = size_family if payload["family"].startswith("size") else hazards
        return mod.replay(prop, payload)
    sim = run_sim(run, {prop})
    return {"violations": sim.viol, "digest": sim.digest()}


def minimise(prop, v):
    if v.get("family"):
        return {"property": prop, "oracle": v["oracle"], "signature": v.get("signature"), "msg": v["msg"],
                "family": v["family"], "run": v["run"], "engine": "pool"}
    oracle = v["oracle"]

    def fails(run):
        try:
            sim = run_sim(copy.deepcopy(run), {prop})
        except Exception:
            return False
        return any(x["prop"] == prop and x["oracle"] == oracle for x in sim.viol)

    run = v["run"]
    small = shrink(run, fails)
    sim = run_sim(copy.deepcopy(small), {prop})
    msg = next((x["msg"] for x in sim.viol if x["prop"] == prop and x["oracle"] == oracle), v["msg"])
    return {"property": prop, "oracle": oracle, "msg": msg, "seed": run.get("seed"), "run": small,
            "digest": sim.digest(), "engine": "pool",
            "original_steps": len(run["steps"]), "minimised_steps": len(small["steps"])}


# ----------------------------------------------------------------------------- evidence
REAL_VS_STUB = {
    "real": ["asyncio_taskpool.pool (BaseTaskPool/TaskPool/SimpleTaskPool)", "asyncio_taskpool.internals.group_register",
             "asyncio_taskpool.internals.helpers", "asyncio Task/Future/Semaphore/Lock/Event/gather (CPython 3.12.1)"],
    "stub": ["event loop (tpsim.loop.SimLoop: FIFO ready queue, virtual clock, handle-level stepping)",
             "user code: worker coroutines, coroutine factories, callbacks, argument iterators (harness-owned, gated)"],
}


def evidence(prop, tier, seed, total, wall, known_hit, real):
    st = total.stats
    ev = total.evaluations
    cov = {
        "evaluations": ev,
        "distinct_nontrivial": len(total.nontrivial),
        "rule": RULES.get(prop, ""),
        "samples": total.samples[:3] or [{"note": "no non-trivial sample recorded"}],
        "runs_per_hour": int(ev / wall * 3600) if wall > 0 else 0,
        "seeds_per_hour": int((st.get("kind:rand", 0) + st.get("kind:sweep_base", 0)) / wall * 3600) if wall > 0 else 0,
        "handles_executed": st.get("handles", 0),
        "loop_iterations": st.get("iterations", 0),
        "idle_points_checked": st.get("idle_points", 0),
        "simulated_time_s": 0.0,
        "simulated_time_note": "the pool has no timers; progress is measured in loop handles, not seconds",
        "unit_kinds": {k[5:]: v for k, v in st.items() if k.startswith("kind:")},
        "faults_fired": {k[6:]: v for k, v in sorted(st.items()) if k.startswith("fault:")},
        "probes_hit": {k[6:]: v for k, v in sorted(st.items()) if k.startswith("probe:")},
        "placement_classes": {k[6:]: v for k, v in sorted(st.items()) if k.startswith("place:")},
        "reentrant_placements": {k[10:]: v for k, v in sorted(st.items()) if k.startswith("reentrant:")},
        "op_points_reached": {k[3:]: v for k, v in sorted(st.items()) if k.startswith("pt:")},
        "steps_executed": {k[3:]: v for k, v in sorted(st.items()) if k.startswith("op:")},
        "steps_skipped_inapplicable": {k[8:]: v for k, v in sorted(st.items()) if k.startswith("skipped:")},
        "steered_away_from_known_findings": {k[8:]: v for k, v in sorted(st.items()) if k.startswith("steered:")},
        "sweep_positions": st.get("sweep_positions", 0) + st.get("sweep_positions_reentrant", 0),
        "sweep_pair_positions": st.get("sweep_pair_positions", 0),
        "capacity_probes": st.get("capacity_probes", 0),
        "abstract_states_reached": len(total.states),
        "abstract_state_measure": "(running, in-cancel-callback, ended<=5, locked, closed, waiting spawners) per pool at idle points",
        "known_findings_matched": sorted(known_hit),
        "components": REAL_VS_STUB,
        "exhaustive": False,
    }
    return {
        "property_id": prop, "tier": tier, "seed": seed, "level": "exploration",
        "coverage": cov,
        "assumptions": [
            "CPython 3.12.1 asyncio runs for real; only the loop (SimLoop) and user code are harness-owned",
            "the ready queue is never reordered (asyncio specifies FIFO); freedom is in which external event happens next and where calls land",
            "sampling, not enumeration: a clean batch is evidence, not proof",
        ],
        "wall_s": round(wall, 2),
    }
