"""Directed families around the triggers of recorded findings.

Ordinary (clean) runs never pull the trigger of a recorded finding.  These families do exactly
that, in small scenario shapes where the trigger is the only fault, with steering switched off
(``clean: False``) and all oracles of the property strict.  A violation found here carries the
finding's signature; it is reported as KNOWN-FINDING only if /verif/known_findings.json lists that
(property, signature) *and* the oracle that fired is among the oracles recorded for it - anything
else that fails in a hazard run is an ordinary VIOLATION.
"""
from __future__ import annotations

import copy
import random

from .poolsim import run_sim
from .util import subseed, known_entry, load_known, VERIF

# finding -> properties whose checks run the family
FAMILIES = {
    "F-EARLY": ("C02", "C03", "C05", "C06", "C07", "C08", "C12", "C14"),
    "F-LOCK": ("C01", "C02", "C04", "C08"),
    # not a finding: a group cancelling itself from inside its own argument iterator / factory call.  C07's
    # quantifier excludes it (the spawner only notices at its next suspension), but slots must be conserved
    # all the same - a small directed family with only the slot/accounting oracles of C01/C02 in force.
    "OWN-ITER": ("C01", "C02", "C11"),      # (C11: ids stay dense and in creation order there too)
}
QUICK_N = {"F-EARLY": 300, "F-LOCK": 200, "OWN-ITER": 150}
THOROUGH_N = {"F-EARLY": 1500, "F-LOCK": 800, "OWN-ITER": 800}


def units(prop, tier, seed):
    for e in load_known()["known"]:
        if e["property"] == prop and e.get("witness") and e["id"] in FAMILIES:
            yield ("witness", e["witness"])
    for tag, props in FAMILIES.items():
        if prop in props:
            n = QUICK_N[tag] if tier == "quick" else THOROUGH_N[tag]
            for i in range(n):
                yield (tag, subseed(seed, prop, tag, i))


def _early_run(rng, prop):
    cls = "S" if (prop == "C14" or rng.random() < 0.3) else "T"
    if prop in ("C05", "C08", "C12"):
        cls = "T"
    size = rng.choice([1, 2, 3, 4, None])
    cbs = [None, "s", "a"]
    pcfg = {"cls": cls, "size": size}
    steps = []
    if cls == "S":
        pcfg.update({"fk": "sync", "ecb": rng.choice(cbs), "ccb": rng.choice(cbs), "sc": [{"g": 1}]})
        steps.append({"op": "spawn", "p": 0, "r": 1, "kind": "start", "num": rng.choice([1, 2, 3, 4])})
    else:
        if prop == "C05":
            kind = "map"
        elif prop in ("C08", "C12"):
            kind = rng.choice(["map", "starmap", "doublestarmap"])   # keep F-LOCK's trigger out of this family
        else:
            kind = rng.choice(["apply", "apply", "map", "starmap"])
        st = {"op": "spawn", "p": 0, "r": 1, "kind": kind, "fk": "sync", "ecb": rng.choice(cbs),
              "ccb": rng.choice(cbs), "sc": [{"g": 1}]}
        if kind == "apply":
            st["num"] = rng.choice([1, 2, 3, 4])
        else:
            st["elems"] = [0] * rng.choice([2, 3, 4, 6])
            st["nc"] = rng.choice([1, 2, 3])
        steps.append(st)
    if rng.random() < 0.3 and cls == "T" and prop not in ("C08", "C12"):
        steps.append({"op": "spawn", "p": 0, "r": 2, "kind": "apply", "num": 1, "sc": [{"g": 1}], "ecb": "s"})
    steps.append({"op": "run", "n": rng.choice([1, 1, 2, 2, 3, 4, 5, 7])})
    c = rng.random()
    if prop == "C14" or (cls == "S" and c < 0.4):
        steps.append({"op": "stop", "p": 0, "n": rng.choice([1, 2, 5])})
    elif prop == "C06" or c < 0.55:
        steps.append({"op": "cancel", "p": 0, "ids": [["t", 1, k] for k in rng.sample(range(4), rng.choice([1, 2]))]})
    elif c < 0.8:
        steps.append({"op": "cancel_group", "p": 0, "r": 1})
    else:
        steps.append({"op": "cancel_all", "p": 0})
    steps.append({"op": "idle"})
    if prop in ("C08", "C12"):
        steps.append({"op": "gather", "p": 0, "rex": 0})
    elif rng.random() < 0.3:
        steps.append({"op": "flush", "p": 0, "rex": 0})
    steps.append({"op": "idle"})
    return {"clean": False, "config": {"hmask": 0, "pools": [pcfg]}, "steps": steps}


def _lock_run(rng, prop):
    cls = rng.choice(["T", "T", "S"])
    pcfg = {"cls": cls, "size": rng.choice([1, 2, 3])}
    steps = []
    if cls == "S":
        pcfg.update({"fk": "sync", "ecb": None, "ccb": None, "sc": [{"g": 1}]})
        steps.append({"op": "spawn", "p": 0, "r": 1, "kind": "start", "num": rng.choice([2, 3, 5])})
    else:
        steps.append({"op": "spawn", "p": 0, "r": 1, "kind": "apply", "num": rng.choice([2, 3, 5]),
                      "fk": "sync", "sc": [{"g": 1}], "ecb": rng.choice([None, "s"])})
    steps.append({"op": "run", "n": rng.choice([0, 1, 2, 3, 5])})
    if prop == "C08" or rng.random() < 0.4:
        steps.append({"op": "gather", "p": 0, "rex": 0})
    else:
        steps.append({"op": "lock", "p": 0})
        steps.append({"op": "idle"})
        for k in range(3):
            steps.append({"op": "gate", "key": ["w", 1, k, 0]})
        steps.append({"op": "idle"})
        steps.append({"op": "unlock", "p": 0})
    steps.append({"op": "idle"})
    return {"clean": False, "config": {"hmask": 0, "pools": [pcfg]}, "steps": steps}


def _own_iter_run(rng, prop):
    size = rng.choice([1, 2, 3, 4])
    kind = rng.choice(["map", "starmap", "apply"])
    st = {"op": "spawn", "p": 0, "r": 1, "kind": kind, "fk": "sync", "sc": [{"g": 1}],
          "ecb": rng.choice([None, "s"]), "ccb": rng.choice([None, "s"])}
    if kind == "apply":
        st["num"] = rng.choice([1, 2, 3, 5])
    else:
        st["elems"] = [0] * rng.choice([1, 2, 3, 5])
        st["nc"] = rng.choice([1, 2, 3])
    steps = []
    if rng.random() < 0.4:
        steps.append({"op": "spawn", "p": 0, "r": 2, "kind": "apply", "num": rng.choice([1, 2]), "sc": [{"g": 1}]})
        steps.append({"op": "idle"})
    point = "fa" if kind == "apply" else rng.choice(["it", "fa"])
    steps.append({"op": rng.choice(["cancel_group", "cancel_group", "cancel_all"]), "p": 0, "r": 1, "at": [point, rng.choice([1, 1, 2, 3])]})
    steps.append(st)
    steps.append({"op": "idle"})
    return {"clean": True, "own_iter_cancel": True, "config": {"hmask": 0, "pools": [{"cls": "T", "size": size}]}, "steps": steps}


def _triggered(tag, sim):
    if tag == "OWN-ITER":
        return bool(sim.stats.get("reentrant:it") or sim.stats.get("reentrant:fa"))
    if tag == "F-EARLY":
        return any(t.early for pc in sim.pools for t in pc.tasks)
    if tag == "F-LOCK":
        return any(r.lock_hit for r in sim.reqs.values())
    return False


def exec_unit(prop, arg, agg, order):
    tag, seed = arg
    if tag == "witness":
        import json
        import os
        with open(os.path.join(VERIF, seed)) as f:
            payload = json.load(f)
        run = payload["run"]
        tag = payload["finding"]
        agg.stats["witness_replayed"] += 1
    else:
        rng = random.Random(seed)
        run = _early_run(rng, prop) if tag == "F-EARLY" else (_own_iter_run(rng, prop) if tag == "OWN-ITER" else _lock_run(rng, prop))
        run["prop"] = prop
        run["seed"] = seed
        run["hazard"] = tag
    sim = run_sim(copy.deepcopy(run), {prop})
    agg.evaluations += 1
    agg.stats["kind:hazard:" + tag] += 1
    others = [t for t in FAMILIES if t != tag and _triggered(t, sim)]
    fired = _triggered(tag, sim) and not others
    if others:
        agg.stats["hazard_mixed_triggers"] += 1
    if fired:
        agg.stats["hazard_trigger_fired:" + tag] += 1
        agg.nontrivial.add(int(sim.digest(), 16))
    if not sim.viol:
        if fired:
            agg.stats["hazard_held:" + tag] += 1
        return
    seen = set()
    sig = tag if fired else None
    for v in sim.viol:
        if v["prop"] != prop or v["oracle"] in seen:
            continue
        seen.add(v["oracle"])
        rec = {"order": order, "prop": prop, "oracle": v["oracle"], "msg": v["msg"],
               "run": run, "engine": "pool", "signature": sig}
        if known_entry(prop, sig, v["oracle"]) is not None:
            agg.known.setdefault((sig, v["oracle"]), rec)
            agg.stats["hazard_known:" + tag] += 1
        elif len(agg.violations) < 12:
            agg.violations.append(rec)
