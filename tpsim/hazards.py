"""Directed families around the triggers of recorded findings (filled in below)."""


def units(prop, tier, seed):
    return ()


def exec_unit(prop, arg, agg, order):
    raise NotImplementedError


def replay(prop, payload):
    raise NotImplementedError
