"""Sensitivity tool: apply a source change to a scratch copy of /repo/src (outside /repo and /verif),
run the repository's unedited test suite on it, run the given checks against it, delete the copy.

  python -m tpsim.mutate <patch.diff> [--reverse] --props C01,C02 [--tier quick] [--skip-tests]
  python -m tpsim.mutate --all            # every change under /verif/seeded and /verif/mutants -> kill matrix

Never touches /repo.  Exit status 0 if every listed owner check reported a violation.
"""
from __future__ import annotations

import argparse
import json
import os
import shutil
import subprocess
import sys
import tempfile

VERIF = os.path.dirname(os.path.dirname(os.path.abspath(__file__)))


def run_one(patch, reverse, props, tier="quick", skip_tests=False, seed=0):
    scratch = tempfile.mkdtemp(prefix="tpmut-")
    res = {"patch": os.path.relpath(patch, VERIF), "reverse": reverse, "tests_pass": None, "checks": {}}
    try:
        shutil.copytree("/repo/src", os.path.join(scratch, "src"))
        shutil.copytree("/repo/tests", os.path.join(scratch, "tests"))
        for f in ("pyproject.toml",):
            if os.path.exists("/repo/" + f):
                shutil.copy("/repo/" + f, scratch)
        cmd = ["patch", "-p1", "-s", "-i", os.path.abspath(patch)]
        if reverse:
            cmd.insert(1, "-R")
        r = subprocess.run(cmd, cwd=scratch, capture_output=True, text=True)
        if r.returncode != 0:
            res["error"] = "patch failed: " + (r.stdout + r.stderr)[-300:]
            return res
        env = dict(os.environ, PYTHONPATH=os.path.join(scratch, "src"), PYTHONDONTWRITEBYTECODE="1")
        if not skip_tests:
            t = subprocess.run(["/venv/bin/python", "-m", "pytest", "-q", "-p", "no:cacheprovider", "-x", "tests"],
                               cwd=scratch, env=env, capture_output=True, text=True, timeout=600)
            res["tests_pass"] = t.returncode == 0
            res["tests_tail"] = t.stdout.strip().split("\n")[-1][:200]
        for p in props:
            env2 = dict(os.environ, VERIF_REPO_SRC=os.path.join(scratch, "src"), VERIF_SEED=str(seed))
            c = subprocess.run([os.path.join(VERIF, "check"), p, "--tier", tier, "--no-evidence"], env=env2,
                               capture_output=True, text=True, timeout=3600)
            first = next((ln for ln in c.stdout.split("\n") if ln.startswith("violation ")), "")
            res["checks"][p] = {"exit": c.returncode, "first": first[:220]}
    finally:
        shutil.rmtree(scratch, ignore_errors=True)
    return res


def main():
    ap = argparse.ArgumentParser()
    ap.add_argument("patch", nargs="?")
    ap.add_argument("--reverse", action="store_true")
    ap.add_argument("--props", default="")
    ap.add_argument("--tier", default="quick")
    ap.add_argument("--skip-tests", action="store_true")
    ap.add_argument("--all", action="store_true")
    ap.add_argument("--part", default="", help="i/n: only every n-th entry starting at i (kill matrix in several runs)")
    ap.add_argument("--benign", action="store_true", help="property-preserving changes (mutants/benign_index.json): every check must stay quiet")
    a = ap.parse_args()
    if a.benign:
        props = [f"C{i:02d}" for i in range(1, 21)]
        alarms = []
        for m in json.load(open(os.path.join(VERIF, "mutants", "benign_index.json"))):
            res = run_one(os.path.join(VERIF, "mutants", m["patch"]), False, props, a.tier, True)
            bad = {p: c for p, c in res["checks"].items() if c["exit"] != 0}
            print(m["patch"], "clean" if not bad else f"ALARMS {bad}", flush=True)
            alarms += [(m["patch"], p) for p in bad]
        print("false alarms:", alarms)
        return 1 if alarms else 0
    if not a.all:
        res = run_one(a.patch, a.reverse, [p for p in a.props.split(",") if p], a.tier, a.skip_tests)
        print(json.dumps(res, indent=1))
        return 0 if all(c["exit"] == 1 for c in res["checks"].values()) else 1
    out = []
    pi, pn = (int(x) for x in a.part.split("/")) if a.part else (0, 1)
    counter = 0
    seeded = os.path.join(VERIF, "seeded")
    for d in sorted(os.listdir(seeded)) if os.path.isdir(seeded) else []:
        meta_p = os.path.join(seeded, d, "meta.json")
        if not os.path.exists(meta_p):
            continue
        counter += 1
        if counter % pn != pi:
            continue
        meta = json.load(open(meta_p))
        res = run_one(os.path.join(seeded, d, "patch.diff"), False, meta["properties"], a.tier, a.skip_tests)
        res["id"] = d
        res["owner_properties"] = meta["properties"]
        if meta.get("detected") is False:
            res["documented_undetected"] = meta.get("caught_by", "")
        out.append(res)
        print(d, res.get("tests_pass"), {p: c["exit"] for p, c in res["checks"].items()}, flush=True)
    mdir = os.path.join(VERIF, "mutants")
    idx_p = os.path.join(mdir, "index.json")
    if os.path.exists(idx_p):
        for m in json.load(open(idx_p)):
            counter += 1
            if counter % pn != pi:
                continue
            res = run_one(os.path.join(mdir, m["patch"]), m.get("reverse", False), m["properties"], a.tier, a.skip_tests)
            res["id"] = m["patch"]
            res["owner_properties"] = m["properties"]
            out.append(res)
            print(m["patch"], res.get("tests_pass"), {p: c["exit"] for p, c in res["checks"].items()}, flush=True)
    with open(os.path.join(VERIF, "mutants", "kill_matrix.json" if not a.part else f"kill_matrix.part{pi}of{pn}.json"), "w") as f:
        json.dump(out, f, indent=1)
    missed = [(r["id"], p) for r in out for p, c in r["checks"].items() if c["exit"] != 1 and not r.get("documented_undetected")]
    print("documented as undetected:", [r["id"] for r in out if r.get("documented_undetected")])
    print("missed:", missed)
    return 1 if missed else 0


if __name__ == "__main__":
    sys.exit(main())
