async def nightly(*args, **kwargs):
    from .. import ctlworkers
    sim = ctlworkers.SIM
    if sim is None:
        return None
    return await sim.worker_body("nightly", args, kwargs)
