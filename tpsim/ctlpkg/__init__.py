"""One job per file, re-exported by the package: `tpsim.ctlpkg.nightly` is the coroutine FUNCTION in Python (the
attribute of the package), while `sys.modules['tpsim.ctlpkg.nightly']` is the sub-module of the same name.  A dotted
path given to the control server must mean what the same expression means in Python."""
from .nightly import nightly  # noqa: F401
