"""Minimisation of a failing run: ddmin over the step list (and the inject list), then
field-level simplification, while the same (property, oracle) violation persists."""
from __future__ import annotations

import copy


def _ddmin(items, test, budget):
    n = 2
    items = list(items)
    while len(items) >= 2 and budget[0] > 0:
        chunk = max(1, len(items) // n)
        subsets = [items[i:i + chunk] for i in range(0, len(items), chunk)]
        reduced = False
        for i in range(len(subsets)):
            if budget[0] <= 0:
                break
            complement = [x for j, s in enumerate(subsets) if j != i for x in s]
            budget[0] -= 1
            if test(complement):
                items = complement
                n = max(n - 1, 2)
                reduced = True
                break
        if not reduced:
            if n >= len(items):
                break
            n = min(len(items), n * 2)
    if len(items) == 1 and budget[0] > 0:
        budget[0] -= 1
        if test([]):
            items = []
    return items


def shrink(run, fails, max_tests=300):
    """fails(run) -> bool. Returns a (locally) minimal failing run."""
    run = copy.deepcopy(run)
    budget = [max_tests]

    def with_steps(steps):
        r = dict(run)
        r["steps"] = steps
        return r

    def with_inject(inj):
        r = dict(run)
        r["inject"] = inj
        return r

    run["steps"] = _ddmin(run["steps"], lambda s: fails(with_steps(s)), budget)
    if run.get("inject"):
        run["inject"] = _ddmin(run["inject"], lambda s: fails(with_inject(s)), budget)
    # merge trivial run steps / simplify fields
    changed = True
    while changed and budget[0] > 0:
        changed = False
        for i, st in enumerate(list(run["steps"])):
            for key, val in (("at", None), ("ecb", None), ("ccb", None), ("fail", None), ("gn", None),
                             ("fk", "sync"), ("ash", 0), ("fn", 0)):
                if budget[0] <= 0:
                    break
                if key in st and st[key] != val:
                    cand = copy.deepcopy(run)
                    if val is None:
                        del cand["steps"][i][key]
                    else:
                        cand["steps"][i][key] = val
                    budget[0] -= 1
                    if fails(cand):
                        run = cand
                        changed = True
            if budget[0] > 0 and st.get("sc") and st["sc"] != [{"g": 1}]:
                cand = copy.deepcopy(run)
                cand["steps"][i]["sc"] = [{"g": 1}]
                budget[0] -= 1
                if fails(cand):
                    run = cand
                    changed = True
    cfg = run["config"]
    if cfg.get("hmask") and budget[0] > 0:
        cand = copy.deepcopy(run)
        cand["config"]["hmask"] = 0
        budget[0] -= 1
        if fails(cand):
            run = cand
    return run
