"""Generates /verif/MANIFEST.json (python -m tpsim.manifest)."""
import json
import os

VERIF = os.path.dirname(os.path.dirname(os.path.abspath(__file__)))

POOL_NOTE = ("Trusted base: CPython 3.12.1 asyncio (run for real), SimLoop's FIFO batching being faithful to "
             "BaseEventLoop._run_once, harness-owned user code. Seeded sampling (uniform swarm runs, phased multi-cycle scenarios, "
             "scale families around powers of two and ten up to ~1500 tasks, threshold placement sweeps) + single-fault placement "
             "sweeps, not enumeration. Recorded findings (known_findings.json) are reported as KNOWN-FINDING by (property, signature, oracle).")

CLAIMS = {
    "C01": ("5.C01", "Seeded deterministic simulation of the real pool on a handle-stepped loop; size bound checked after every handle and at every user-code point, is_full at every idle point; placement sweeps of spawn/cancel steps; the size may be re-assigned while no task is in flight."),
    "C02": ("5.C02", "Conservation invariants at every idle point, exactly-once end callbacks and a capacity probe at the end of every run, under cancellations, exceptions, slow callbacks and overlapping flushes placed at every handle boundary of seeded base runs."),
    "C03": ("5.C03", "Ledger built from harness-owned workers/callbacks predicts (num_running, num_cancelled, num_ended) exactly at every handle boundary; per-task callback order/exactly-once and classification probes through the public API."),
    "C04": ("5.C04", "Per-request accounting of factory calls, argument identity and tasks for apply/start under blocking, competing requests, locks and unrelated cancellations; work-conservation at idle."),
    "C05": ("5.C05", "Counting iterators and call-time observing factories check element mapping, order, laziness (after every pull/creation), per-call concurrency bound and work conservation at idle for the three map variants."),
    "C06": ("5.C06", "cancel(ids) with valid/repeated/stale/flushed/never-issued ids at every point of seeded histories; all-or-nothing and exactly-one-CancelledError checked through worker observations."),
    "C07": ("5.C07", "cancel_group/cancel_all inserted at every handle boundary and every re-entrant op point of seeded base runs; no start/call/pull after the cancel, group forgotten, siblings undisturbed and still progressing (every progress oracle of C04/C05 is charged to C07 once a group was cancelled in the pool); group cancels while flush/gather_and_close calls wait; a cancelled group's name taken again at once."),
    "C08": ("5.C08", "gather_and_close at every boundary of seeded histories incl. same-tick cancelled spawners and slow callbacks; return-time invariants, until_closed waiters, closed-for-good."),
    "C09": ("5.C09", "Rejected requests (every cause and combinations) at arbitrary points of busy histories: observable snapshot identical before/after, exception among the applicable documented ones."),
    "C10": ("5.C10", "get_group_ids per live request equals the ids of tasks its spawner created, at every idle point; generated names match the documented pattern and never collide with a live group."),
    "C11": ("5.C11", "Task names observed at the task-factory seam: dense, ordered ids per pool, never reused; callback ids equal the id in the task's own name; several pools number independently."),
    "C12": ("5.C12", "Unique injected exception instances in workers, factory calls and callbacks; capacity probe, sibling progress and the identity of what flush/gather_and_close raise."),
    "C13": ("5.C13", "flush (1-3 overlapping) at every boundary of runs with tasks ending, being cancelled and held in slow callbacks; forget-state interval model (must-know / may-forget / must-forget)."),
    "C14": ("5.C14", "stop(n)/stop_all on SimpleTaskPool histories with gaps; returned ids vs ledger, exactly those workers observe one cancellation."),
    "C15": ("5.C15", "Directed family over (class, old size, new size, running, waiting) x seeded timing: getter vs configured maximum, limit in force after assignment, wake-up of waiting spawners, negative values. Reports the recorded finding F-SIZE; every other oracle is strict."),
    "C20": ("5.C20", "Real Queue on the simulated loop with gated consumer bodies, joiners and bounded queues, items of any truth value, user queue subclasses; join() completion vs the harness count of exited blocks, qsize at idle points; consumer cancellation placed at every handle boundary (pairs on short runs); backlogs up to 1100 items and cancellation sweeps around the K-th consecutive take."),
    "C16": ("5.C16", "Real server/session/parser over the simulated network: handshake under fragmentation/latency/concurrent clients for stock and shim classes (+subclasses with extra members), tcp and unix, every terminal width 0..140 and samples up to 65536; runs with an earlier history (restart, abrupt sessions); help of every public member (incl. static methods and mixed-case names) and the top-level command list. Reports the recorded finding F-C16 for the stock classes."),
    "C17": ("5.C17", "Twin runs: each seeded command program is executed through a session over the simulated network and as the equivalent direct calls in an identical simulation; replies, pool observables and worker start records are compared command by command; seeded line terminators; a twin with 16 300-20 000 tasks (replies above 100 KiB)."),
    "C18": ("5.C18", "Seeded valid and mutated lines, pipelined and fragmented, in 1-11 concurrent sessions (storms of 17-130 clients before a regular one), lines up to 60 000 characters: one server write per line in order, no session exception, usage/error replies leave the pool unchanged, nothing printed, no SystemExit, replies carry no foreign token, short reply after long help. Reports the recorded findings F-LONGLINE and F-EARLY (through a session)."),
    "C19": ("5.C19", "Seeded server lifecycles over tcp/unix with 0-11 raw and bundled clients (storms of up to 130), restarts of the same server object (after a complete stop and while old clients are still connected), stale socket files, sessions parked in waiting commands, every disconnect kind (close, exit, EOF, reset, vanish) and the stop swept over handle boundaries: serve_forever promptness, undisturbed sessions, normal completion of the cancelled serving task (also when the stop is requested twice; a serving task that ends as cancelled is a violation), refused connects, socket file removed; a watchdog turns a loop stalled inside one handle into a violation. Reports the recorded finding F-PARKED."),
}

NOT_YET = {}


def build():
    checks = []
    for pid in sorted(CLAIMS):
        ref, text = CLAIMS[pid]
        engine = "tpsim-pool" if int(pid[1:]) <= 15 else ("tpsim-control" if int(pid[1:]) <= 19 else "tpsim-queue")
        checks.append({
            "property_id": pid,
            "quick_cmd": f"./check {pid} --tier quick",
            "thorough_cmd": f"./check {pid} --tier thorough",
            "evidence_file": f"/verif/evidence/{pid}.json",
            "replay_cmd_template": "./check --replay {path}",
            "engine": engine,
            "level_claimed": {"category": "exploration", "text": text, "design_ref": "DESIGN.md §" + ref},
            "level_note": POOL_NOTE,
            "technique": "deterministic simulation with fault injection (seeded schedule/fault search on a custom asyncio loop, invariant + history oracles, ddmin replay)",
        })
    na = [{"property_id": p, "reason": r} for p, r in sorted(NOT_YET.items())]
    return {
        "version": 1,
        "setup_cmd": "true",
        "hooks": {"guard": "none", "enable": "no hooks: asyncio's event-loop API is the seam; checks import /repo/src directly",
                  "baseline_off_cmd": "cd /repo && /venv/bin/python -m pytest -q -p no:cacheprovider tests",
                  "source_commits": [], "add_only": True},
        "engines": [
            {"name": "tpsim-pool", "path": "tpsim/pool_engine.py", "serves_properties": [p for p in sorted(CLAIMS) if int(p[1:]) <= 15],
             "kind_free_text": "deterministic simulation: real pool code on SimLoop with harness-owned user code"},
            {"name": "tpsim-control", "path": "tpsim/ctl_engine.py", "serves_properties": [p for p in sorted(CLAIMS) if 16 <= int(p[1:]) <= 19],
             "kind_free_text": "deterministic simulation: real control server/session/parser/client + asyncio streams over an in-memory network"},
            {"name": "tpsim-queue", "path": "tpsim/queue_engine.py", "serves_properties": [p for p in sorted(CLAIMS) if int(p[1:]) == 20],
             "kind_free_text": "deterministic simulation: real Queue on SimLoop with harness-owned producers/consumers"},
        ],
        "checks": checks,
        "not_applicable": na,
        "notes": "All checks: ./check <ID> --tier quick|thorough (VERIF_SEED, VERIF_TIER, VERIF_BUDGET_S, VERIF_REPO_SRC honoured).",
    }


if __name__ == "__main__":
    import sys
    for p in ("C15", "C16", "C17", "C18", "C19", "C20"):
        if p not in CLAIMS:
            NOT_YET[p] = "check not built yet in this revision (planned: see DESIGN.md §5); not claimed until it exists"
    m = build()
    with open(os.path.join(VERIF, "MANIFEST.json"), "w") as f:
        json.dump(m, f, indent=1)
    print("wrote MANIFEST.json with", len(m["checks"]), "checks")
