"""Annotation shim (a declared stub, DESIGN §2.4 / finding F-C16).

pool.py uses postponed (string) annotations, which control.parser cannot turn into converters, so
on this tree no ControlParser can be built from a stock pool class.  To still decide C17-C19 on the
real session/parser/server code, the harness derives from each stock class a subclass whose public
functions are the *same code objects* with the annotation strings replaced - through the explicit
table below - by the type objects ``parser._get_type_from_annotation`` is written for.
"""
from __future__ import annotations

import inspect
import types
from typing import Iterable

from asyncio_taskpool.internals.types import AnyCoroutineFunc, ArgsT, CancelCB, EndCB, KwArgsT

TABLE = {
    "Callable[_P, Coroutine[_R, Any, Any]]": AnyCoroutineFunc,
    "Callable[..., AnyCoroutine]": AnyCoroutineFunc,
    "Callable[[_T], AnyCoroutine]": AnyCoroutineFunc,
    "Callable[[Unpack[_Ts]], AnyCoroutine]": AnyCoroutineFunc,
    "_P.args": ArgsT,
    "_P.kwargs": KwArgsT,
    "int": int,
    "float": float,
    "str": str,
    "str | None": str,
    "bool": bool,
    "EndCB | None": EndCB,
    "CancelCB | None": CancelCB,
    "Iterable[KwArgsT]": Iterable[KwArgsT],
    "Iterable[_T]": ArgsT,
    "Iterable[Tuple[Unpack[_Ts]]]": Iterable[ArgsT],
}


def _shim_function(f):
    g = types.FunctionType(f.__code__, f.__globals__, f.__name__, f.__defaults__, f.__closure__)
    g.__kwdefaults__ = f.__kwdefaults__
    g.__doc__ = f.__doc__
    g.__qualname__ = f.__qualname__
    g.__module__ = f.__module__
    g.__dict__.update(f.__dict__)
    ann = {}
    for k, v in f.__annotations__.items():
        if isinstance(v, str):
            if k == "return":
                continue
            if v not in TABLE:
                raise KeyError(f"annotation shim has no entry for {v!r} ({f.__qualname__}.{k})")
            ann[k] = TABLE[v]
        else:
            ann[k] = v
    g.__annotations__ = ann
    return g


_cache = {}


def shim_class(cls):
    """Subclass of *cls* (same name) whose public functions/properties carry evaluated annotations."""
    if cls in _cache:
        return _cache[cls]
    ns = {}
    for name, member in inspect.getmembers(cls):
        if name.startswith("_"):
            continue
        if inspect.isfunction(member):
            ns[name] = _shim_function(member)
        elif isinstance(member, property):
            ns[name] = property(
                _shim_function(member.fget) if member.fget else None,
                _shim_function(member.fset) if member.fset else None,
                member.fdel, member.__doc__)
    ns["__doc__"] = cls.__doc__
    ns["_tpsim_shim"] = True
    sub = type(cls.__name__, (cls,), ns)
    sub.__module__ = cls.__module__
    _cache[cls] = sub
    return sub
