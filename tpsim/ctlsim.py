"""Control-server simulation (C16-C19): the real control.{server,session,parser,client,__main__}
and the real asyncio streams / Server run on NetLoop over the in-memory network, with a real pool
behind the server.  One run = configuration + explicit step list; everything (latency, chunking)
is drawn from seeds in the configuration."""
from __future__ import annotations

import asyncio
import gc
import hashlib
import re
import io
import json
import logging
import os
import shutil
import sys
import tempfile
import warnings
from collections import Counter

from .loop import running
from .net import NetLoop
from . import ctlworkers
from .poolsim import silence_library_logging

from .loop import LoopStalled, Watchdog as _Watchdog  # noqa: E402


_POOL_TASK_RE = re.compile(r"_Task-\d+$")
STREAM_LIMIT = 2 ** 16          # asyncio.StreamReader's default limit, which the server's streams use
BLOCKING = ("until-closed", "gather-and-close", "flush")


class Client:
    def __init__(self, label, kind):
        self.label = label
        self.kind = kind              # raw / cli
        self.task = None
        self.reader = None
        self.writer = None
        self.ct = None                # client-side transport
        self.connect_error = None
        self.connected = False
        self.recv = bytearray()
        self.eof = False
        self.lost_exc = None
        self.sent = bytearray()
        self.lines = []               # complete non-blank lines sent after the handshake
        self.handshake_sent = False
        self.gone = None              # how it left: close / eof / abort / vanish / exit
        self.gone_at_replies = None
        self.printed = []             # cli: print() calls
        self.script = []              # cli: scripted input lines
        self.finished = False
        self.width = None
        self.bad_handshake = False
        self.srv = 1

    @property
    def st(self):
        return self.ct.peer if self.ct is not None else None

    def server_writes(self):
        st = self.st
        return list(st.writes) if st is not None else []

    def replies(self):
        return [w.decode("utf-8", "replace") for w in self.server_writes()[1:]]


class CtlSim:
    MAX_VIOL = 10

    def __init__(self, run, props=None):
        silence_library_logging()
        if (run.get("config") or {}).get("loglevel") in ("DEBUG", "INFO"):
            # configuration knob: the application enabled the library's logger (records go to a null handler)
            logging.getLogger("asyncio_taskpool").setLevel(getattr(logging, run["config"]["loglevel"]))
        self.run = run
        self.cfg = cfg = run["config"]
        self.props = props
        self.loop = NetLoop(cfg.get("hmask", 0), cfg.get("net_seed", 0), cfg.get("net", {}))
        self.loop.set_debug(False)
        self.pool_tasks = []
        self.cancel_counts = []
        self.worker_prints = 0
        self.loop.on_task_created = self._on_task_created
        self.events = []
        self.viol = []
        self.stats = Counter()
        self.clients = {}
        self.server = None
        self.serving_task = None
        self.serve_driver = None
        self.serve_handles = None
        self.stopped = False
        self.remaining = 0
        self.inject = []
        self.gates = {}
        self.invocations = []         # worker start records
        self.cancel_obs = 0
        self.cb_records = []
        self.torn = False
        self.tmpdir = None
        self.closed_seen = False
        self.direct_results = []
        self.direct_pending = []
        self.system_exit = None
        self.hit_cap = False

    # ------------------------------------------------------------------ basics
    def ev(self, *a):
        self.events.append(a)

    def violate(self, prop, oracle, msg, signature=None):
        if self.props is not None and prop not in self.props:
            return
        if len(self.viol) < self.MAX_VIOL:
            v = {"prop": prop, "oracle": oracle, "msg": msg, "handle": self.loop.handles_run, "t": round(self.loop.time(), 4)}
            if signature:
                v["signature"] = signature
            self.viol.append(v)
        self.ev("VIOL", prop, oracle)

    def digest(self):
        return hashlib.sha1(repr(self.events).encode()).hexdigest()[:16]

    def _on_task_created(self, task, coro, creator):
        self.pool_tasks.append(task)      # (asyncio.create_task applies the name later: filtered by name when asked)

    def overlong_lines(self):
        return [c.label for c in self.clients.values() if c.kind == "raw"
                and any(len(ln.encode()) + 1 > STREAM_LIMIT for ln in bytes(c.sent).decode("utf-8", "replace").split("\n"))]

    def early_dead_tasks(self):
        """Trigger of the recorded finding F-EARLY, seen from outside: a pool task that ended cancelled although its
        worker never ran its first statement."""
        ran = {r["task"] for r in self.invocations}
        return [t.get_name() for t in self.pool_tasks if _POOL_TASK_RE.search(t.get_name()) and t.done() and t.cancelled()
                and t.get_name() not in ran]

    # ------------------------------------------------------------------ pool and workers
    def make_pool(self, cfg=None):
        from asyncio_taskpool.pool import TaskPool, SimpleTaskPool
        from .shim import shim_class
        cfg = cfg or self.cfg
        base = SimpleTaskPool if cfg.get("cls", "T").startswith("S") else TaskPool
        cls = base if cfg.get("stock") else shim_class(base)
        if cfg.get("cls", "T").endswith("x"):
            cls = extended_class(cls, cfg.get("variant", 0))
        kw = {}
        if cfg.get("size") is not None:
            kw["pool_size"] = cfg["size"]
        kw["name"] = cfg.get("name", "p")
        if base is SimpleTaskPool:
            pool = cls(getattr(ctlworkers, self.run.get("simple_func", "work")), args=(1, "a"), kwargs={"k": 2}, end_callback=ctlworkers.on_end,
                       cancel_callback=ctlworkers.on_cancel, **kw)
        else:
            pool = cls(**kw)
        if cfg is self.cfg:
            self.pool_cls = cls
        else:
            self.pool2_cls = cls
        return pool

    async def worker_body(self, fname, args, kwargs):
        n = len(self.invocations)
        name = asyncio.current_task().get_name()
        rec = {"n": n, "f": fname, "args": repr(args), "kwargs": repr(sorted(kwargs.items())), "task": name,
               "state": "live"}
        self.invocations.append(rec)
        self.ev("ws", n, fname, rec["args"], rec["kwargs"], name)
        noisy = self.cfg.get("noisy")
        if noisy:
            # user code may print: that is the application's own console output, not the server's and nobody's reply
            print(f"WORKERSAYS {n} start")
            self.worker_prints += 1
        try:
            fut = self.loop.create_future()
            self.gates[n] = fut
            await fut
        except asyncio.CancelledError:
            if not self.torn:
                self.cancel_obs += 1
                rec["state"] = "cancelled"
                # how many cancellation requests the task has received (an id named twice in one cancel() counts twice)
                rec["cancelling"] = asyncio.current_task().cancelling()
                self.cancel_counts.append((n, rec["cancelling"]))
                self.ev("wc", n, rec["cancelling"])
            raise
        except RuntimeError:
            rec["state"] = "failed"
            self.ev("wf", n)
            raise
        else:
            rec["state"] = "done"
            self.ev("wx", n)
            if noisy and not self.torn:
                print(f"WORKERSAYS {n} end")
                self.worker_prints += 1
        return n

    def cb_record(self, which, task_id):
        if not self.torn:
            self.cb_records.append((which, task_id))
            self.ev("cb", which, task_id)

    def observables(self):
        p = self.pool
        groups = []
        for g in self.known_groups():
            try:
                groups.append((g, tuple(sorted(p.get_group_ids(g)))))
            except Exception as e:
                groups.append((g, type(e).__name__))
        return (p.num_running, p.num_cancelled, p.num_ended, p.is_locked, p.is_full, str(p.pool_size),
                tuple(groups), len(self.invocations), self.cancel_obs, tuple(self.cancel_counts))

    def known_groups(self):
        return list(self.run.get("groups", ("g1", "g2", "g\t3", "g\u00a04", "", "apply-work-group-0", "map-work-group-0", "start-group-0",
                                            "start-group-1", "starmap-work-group-0", "doublestarmap-work-group-0",
                                            "apply-job-group-0")))

    # ------------------------------------------------------------------ server
    def address(self, srv=1):
        if self.cfg.get("transport", "tcp") == "unix":
            if self.cfg.get("relpath"):
                # a short RELATIVE socket path used from a deep working directory (its absolute form would not fit
                # into an AF_UNIX address): the process runs inside self.tmpdir for the duration of the run
                return ("unix", "ctl.sock" if srv == 1 else "ctl2.sock")
            return ("unix", os.path.join(self.tmpdir, "ctl.sock" if srv == 1 else "ctl2.sock"))
        return ("tcp", self.cfg.get("host", "127.0.0.1"), 9999 if srv == 1 else 9998)

    def make_server(self, srv=1):
        from asyncio_taskpool.control.server import TCPControlServer, UnixControlServer
        addr = self.address(srv)
        pool = self.pool if srv == 1 else self.pool2
        if addr[0] == "unix":
            return UnixControlServer(pool, socket_path=addr[1])
        return TCPControlServer(pool, host=addr[1], port=addr[2])

    def _op_start2(self, st):
        """A second control server in the same process, for another pool (of another class)."""
        if getattr(self, "server2", None) is not None:
            return
        cfg2 = dict(self.cfg)
        cfg2.update(st.get("cfg", {}))
        cfg2["name"] = "q"
        self.pool2 = self.make_pool(cfg2)
        self.server2 = self.make_server(2)
        self.serve_driver2 = self.loop.create_task(self._drive_serve2())

    async def _drive_serve2(self):
        self.serving_task2 = await self.server2.serve_forever()

    async def _drive_serve(self):
        h0 = self.loop.handles_run
        try:
            t = await self.server.serve_forever()
        except BaseException as e:
            if not self.torn:
                self.violate("C19", "serve_forever_raised", f"serve_forever() raised {type(e).__name__}: {e}")
            return
        self.serve_handles = self.loop.handles_run - h0
        self.serving_task = t
        if getattr(self, "old_serving_task", None) is t:
            self.violate("C19", "restart_same_task", "serve_forever() after a stop returned the old (cancelled) serving task instead of serving again")
        self.ev("serving", self.serve_handles)
        if not isinstance(t, asyncio.Task):
            self.violate("C19", "serve_forever_result", f"serve_forever() returned {type(t).__name__}, not a Task")
        elif t.done():
            self.violate("C19", "serve_forever_result", "serve_forever() returned a task that is already done")
        if self.serve_handles > 25:
            self.violate("C19", "serve_forever_slow", f"serve_forever() took {self.serve_handles} loop handles to return")
        if not self.server.is_serving():
            self.violate("C19", "not_serving", "is_serving() false right after serve_forever() returned")

    # ------------------------------------------------------------------ clients
    async def _raw_client(self, c):
        addr = self.address(c.srv)
        try:
            if addr[0] == "unix":
                c.reader, c.writer = await asyncio.open_unix_connection(addr[1])
            else:
                c.reader, c.writer = await asyncio.open_connection(addr[1], addr[2])
        except (ConnectionRefusedError, FileNotFoundError, OSError) as e:
            c.connect_error = e
            c.finished = True
            self.ev("connect_error", c.label, type(e).__name__)
            return
        c.ct = c.writer.transport
        c.connected = True
        self.ev("connected", c.label)
        for data in c.pending:
            c.writer.write(data)
        c.pending = []
        try:
            while True:
                data = await c.reader.read(65536)
                if not data:
                    c.eof = True
                    self.ev("client_eof", c.label)
                    break
                c.recv += data
        except ConnectionError as e:
            c.lost_exc = e
            self.ev("client_lost", c.label, type(e).__name__)
        except asyncio.CancelledError:
            raise
        c.finished = True

    def _send(self, c, data):
        c.sent += data
        if c.writer is None:
            c.pending.append(data)
        elif not c.writer.transport.is_closing():
            c.writer.write(data)
        # account complete lines (after the handshake line)
        text = bytes(c.sent)
        lines = text.split(b"\n")[:-1]
        body = lines[1:]
        c.lines = [ln.decode("utf-8", "replace") for ln in body]

    # ------------------------------------------------------------------ cli client (bundled)
    def _cli_input(self, prompt=""):
        c = self._cli_current()
        if c is None or not c.script:
            raise EOFError
        line = c.script.pop(0)
        c.cli_sent.append(line)
        return line

    def _cli_print(self, *args, **kwargs):
        c = self._cli_current()
        text = " ".join(str(a) for a in args)
        if c is not None:
            c.printed.append(text)
            self.ev("cli_print", c.label, text.replace(self.tmpdir or "\0", "<tmp>")[:40])

    def _cli_current(self):
        t = asyncio.current_task()
        for c in self.clients.values():
            if c.task is t:
                return c
        return None

    async def _cli_client(self, c, use_main):
        from asyncio_taskpool.control import client as cmod
        addr = self.address()
        if use_main:
            from asyncio_taskpool.control import __main__ as mainmod
            # sys.argv is set for the whole run (execute()): main() parses it in its first step
            await mainmod.main()
        else:
            if addr[0] == "unix":
                cl = cmod.UnixControlClient(socket_path=addr[1])
            else:
                cl = cmod.TCPControlClient(host=addr[1], port=addr[2])
            await cl.start()
        c.finished = True
        self.ev("cli_done", c.label)

    async def _await(self, coro):
        return await coro

    # ------------------------------------------------------------------ steps
    def exec_step(self, st):
        op = st["op"]
        getattr(self, "_op_" + op)(st)
        self.stats["op:" + op] += 1
        self.ev("op", op, st.get("c"))

    def _op_start(self, st):
        if self.server is not None:
            return
        addr = self.address()
        if addr[0] == "unix" and self.cfg.get("stale_socket"):
            # crash residue: an earlier server process on this path was killed and left its socket file behind
            import socket as _socket
            s = _socket.socket(_socket.AF_UNIX)
            try:
                s.bind(addr[1])
            finally:
                s.close()
            self.stats["fault:stale_socket_file"] += 1
        self.server = self.make_server()
        self.serve_driver = self.loop.create_task(self._drive_serve())

    def _op_restart(self, st):
        """serve_forever() again on the SAME server object after a complete stop."""
        if self.server is None or self.serving_task is None:
            return
        if not self.serving_task.done():
            # "early": the old serving task was cancelled but still waits for its clients to leave.  Only over TCP
            # (a Unix server's old task removes the socket path when it finally completes - nothing states what a
            # second server on that path may expect) and only once the old listener has really been closed.
            addr = self.address()
            if not (st.get("early") and self.stopped and addr[0] == "tcp"
                    and ("tcp", str(addr[1]), int(addr[2])) not in self.loop.net.listeners and not self.server.is_serving()):
                return
            self.stats["fault:server_restarted_before_old_task_done"] += 1
            self.old_tasks = getattr(self, "old_tasks", []) + [self.serving_task]
        self.stats["fault:server_restarted"] += 1
        self.old_serving_task = self.serving_task
        self.serving_task = None
        self.stopped = False
        self.restarted = True
        self.epoch = getattr(self, "epoch", 0) + 1
        self.serve_driver = self.loop.create_task(self._drive_serve())

    def _op_connect(self, st):
        lab = st["c"]
        if lab in self.clients:
            return
        c = Client(lab, "raw")
        c.epoch = getattr(self, "epoch", 0)
        c.srv = st.get("srv", 1)
        c.pending = []
        c.width = st.get("w", 80)
        self.clients[lab] = c
        c.task = self.loop.create_task(self._raw_client(c))
        hs = st.get("hs", "ok")
        if hs == "ok":
            self._send(c, json.dumps({"terminal_width": c.width}).encode() + b"\n")
        elif hs == "extra":
            self._send(c, b"  " + json.dumps({"terminal_width": c.width, "foo": "bar"}).encode() + b" \n")
        elif hs == "garbage":
            self._send(c, b"hello there\n")
        elif hs == "nokey":
            self._send(c, b'{"width": 80}\n')
        elif hs == "partial":
            self._send(c, b'{"terminal_wid')
        if hs not in ("ok", "extra"):
            self.stats["fault:handshake_" + hs] += 1
            c.bad_handshake = True
        c.handshake_sent = hs in ("ok", "extra")

    def _op_line(self, st):
        c = self.clients.get(st["c"])
        if c is None or c.gone:
            return
        # the line terminator is the client's business: LF, CR LF (telnet, nc -C, Windows tooling), blanks or a tab before it
        self._send(c, st["text"].encode("utf-8") + st.get("eol", "\n").encode())

    def _op_raw(self, st):
        c = self.clients.get(st["c"])
        if c is None or c.gone:
            return
        self._send(c, st["data"].encode("utf-8"))

    def _op_close(self, st):
        c = self.clients.get(st["c"])
        if c is None or c.gone or c.writer is None:
            return
        how = st.get("how", "close")
        c.gone = how
        c.gone_at_replies = len(c.replies())
        self.stats["fault:disconnect_" + how] += 1
        if how == "close":
            c.writer.close()
        elif how == "eof":
            try:
                c.writer.write_eof()
            except OSError:
                # the server side of this connection is gone already: nothing to half-close
                c.gone = "close"
                c.writer.close()
        elif how == "abort":
            c.writer.transport.abort()
        elif how == "vanish":
            c.ct.vanish()

    def _op_stall(self, st):
        c = self.clients.get(st["c"])
        if c is None or c.ct is None:
            return
        c.ct.stall(bool(st.get("on", 1)))

    def _op_stop(self, st):
        if self.serving_task is not None and self.stopped and st.get("again") and not self.serving_task.done() \
                and getattr(self, "stop_requests", 1) < 3:
            # the stop is requested once more while the server waits for its clients to go (a second shutdown path,
            # an impatient operator): still a stop, the serving task still has to COMPLETE - `await task` returns
            self.stop_requests = getattr(self, "stop_requests", 1) + 1
            self.stats["fault:stop_requested_again"] += 1
            self.serving_task.cancel()
            return
        if self.serving_task is None or self.stopped:
            return
        self.stopped = True
        self.stop_requests = st.get("n", 1)
        for _ in range(self.stop_requests - 1):
            self.stats["fault:stop_requested_again"] += 1
            self.serving_task.cancel()
        self.stop_handle = self.loop.handles_run
        for c in self.clients.values():
            if getattr(c, "lines_at_stop", None) is None:
                c.lines_at_stop = len(c.lines)
        self.serving_task.cancel()

    def _op_cli(self, st):
        lab = st["c"]
        if lab in self.clients:
            return
        c = Client(lab, "cli")
        c.script = list(st.get("lines", ()))
        c.cli_sent = []
        self.clients[lab] = c
        c.task = self.loop.create_task(self._cli_client(c, bool(st.get("main"))))

    def _op_gate(self, st):
        fut = self.gates.get(st["k"])
        if fut is None or fut.done():
            return
        if st.get("x"):
            # the worker fails: a later flush / gather-and-close without --return-exceptions is answered with this text
            self.stats["fault:worker_raises"] += 1
            fut.set_exception(RuntimeError(f"boom in worker {st['k']}"))
            return
        fut.set_result(None)

    def _op_direct(self, st):
        """Direct call on the pool (the twin side of C17 / background activity)."""
        name = st["m"]
        args = st.get("a", [])
        kwargs = st.get("k", {})
        args = [self._thaw(a) for a in args]
        kwargs = {k: self._thaw(v) for k, v in kwargs.items()}
        pool = self.pool
        member = getattr(type(pool), name)
        idx = len(self.direct_results)
        self.direct_results.append(None)
        try:
            if isinstance(member, property):
                if args:
                    setattr(pool, name, args[0])
                    res = None
                else:
                    res = getattr(pool, name)
            else:
                res = getattr(pool, name)(*args, **kwargs)
        except Exception as e:
            self.direct_results[idx] = ("reply", str(e))
            return
        if asyncio.iscoroutine(res):
            t = self.loop.create_task(self._drive_direct(idx, res))
            self.direct_pending.append(t)
        else:
            self.direct_results[idx] = ("reply", "ok" if res is None else str(res))

    async def _drive_direct(self, idx, coro):
        try:
            res = await coro
        except Exception as e:
            self.direct_results[idx] = ("reply", str(e))
        else:
            self.direct_results[idx] = ("reply", "ok" if res is None else str(res))

    def _thaw(self, v):
        if isinstance(v, dict) and "$func" in v:
            return getattr(ctlworkers, v["$func"])
        if isinstance(v, dict) and "$tuple" in v:
            return tuple(self._thaw(x) for x in v["$tuple"])
        if isinstance(v, dict) and "$dict" in v:
            return {k: self._thaw(x) for k, x in v["$dict"].items()}
        if isinstance(v, dict) and "$inf" in v:
            return float("inf")
        if isinstance(v, list):
            return [self._thaw(x) for x in v]
        return v

    def _op_rebind(self, st):
        """The dotted path tpsim.ctlworkers.alias is rebound to another function (like a reloaded module)."""
        ctlworkers.alias = ctlworkers.job if ctlworkers.alias is ctlworkers.work else ctlworkers.work
        self.stats["fault:dotted_path_rebound"] += 1

    def _op_run(self, st):
        self._run_handles(st.get("n", 1))

    def _op_idle(self, st):
        self.run_to_idle()

    # ------------------------------------------------------------------ loop driving
    def _run_handles(self, n):
        ran = 0
        loop = self.loop
        while ran < n:
            if self.inject and self.inject[0][0] <= loop.handles_run:
                _, st = self.inject.pop(0)
                self.exec_step(st)
                continue
            if self.remaining <= 0:
                self.remaining = loop.begin_iteration()
                if self.remaining == 0:
                    break
            self.remaining -= 1
            try:
                if loop.run_one():
                    ran += 1
            except SystemExit as e:
                self.system_exit = e
                self.violate("C18", "system_exit", f"SystemExit({e.code}) escaped from the server")
            if loop.handles_run > self.max_handles:
                self.hit_cap = True
                break
        return ran

    def run_to_idle(self, cap=200000):
        total = 0
        while total < cap and not self.hit_cap:
            total += self._run_handles(cap - total)
            if self.remaining <= 0 and self.loop.is_idle():
                if self.inject:
                    _, st = self.inject.pop(0)
                    self.exec_step(st)
                    continue
                return True
        return False

    # ------------------------------------------------------------------ execution
    def execute(self, source=None):
        run = self.run
        self.inject = sorted(([i["h"], i["step"]] for i in run.get("inject", ())), key=lambda x: x[0])
        self.max_handles = run.get("max_handles", 400000)
        if _Watchdog.tripped:
            # an earlier run in this process stalled inside library code: skip (the stall itself is reported)
            self.hit_cap = True
            self.tmpdir = None
            self.torn = True
            return self
        gc_was = gc.isenabled()
        gc.disable()
        self.tmpdir = tempfile.mkdtemp(prefix="tpsim-")
        self._old_cwd = None
        if self.cfg.get("relpath") and self.cfg.get("transport") == "unix":
            self._tmproot = self.tmpdir
            self.tmpdir = os.path.join(self.tmpdir, "w" * 60, "d" * 60)
            os.makedirs(self.tmpdir)
            self._old_cwd = os.getcwd()
            os.chdir(self.tmpdir)
            self.stats["probe:relative_socket_path_in_deep_directory"] += 1
        from .hermetic import reset_library_state
        reset_library_state()
        from asyncio_taskpool.control import client as cmod
        old_out, old_err = sys.stdout, sys.stderr
        cap_out, cap_err = io.StringIO(), io.StringIO()
        saved = (cmod.__dict__.get("input"), cmod.__dict__.get("print"))
        old_sim = ctlworkers.SIM
        old_argv = sys.argv
        wd = _Watchdog(self)
        try:
            wd.start()
            ctlworkers.SIM = self
            ctlworkers.alias = ctlworkers.work
            addr = self.address()
            sys.argv = ["prog", "unix", addr[1]] if addr[0] == "unix" else ["prog", "tcp", addr[1], str(addr[2])]
            cmod.input = self._cli_input
            cmod.print = self._cli_print
            sys.stdout, sys.stderr = cap_out, cap_err
            with running(self.loop), warnings.catch_warnings(record=True) as wlist:
                self.warn_list = wlist
                warnings.simplefilter("always")
                if self.cfg.get("wfilter") == "error":
                    # configuration knob: the process treats warnings as errors (-W error); applied to the library's own
                    warnings.filterwarnings("error", module=r"asyncio_taskpool")
                self.pool = self.make_pool()
                if source is None:
                    for st in run["steps"]:
                        self.exec_step(st)
                        if len(self.viol) >= self.MAX_VIOL or self.hit_cap:
                            break
                else:
                    while len(self.viol) < self.MAX_VIOL and not self.hit_cap:
                        st = source(self)
                        if st is None:
                            break
                        run["steps"].append(st)
                        self.exec_step(st)
                while self.inject:
                    _, st = self.inject.pop(0)
                    self.exec_step(st)
                self.run_to_idle()
                self.end_of_steps()
                self._teardown()
        finally:
            wd.stop()
            sys.stdout, sys.stderr = old_out, old_err
            sys.argv = old_argv
            ctlworkers.alias = ctlworkers.work
            ctlworkers.SIM = old_sim
            for k, v in zip(("input", "print"), saved):
                if v is None:
                    cmod.__dict__.pop(k, None)
                else:
                    cmod.__dict__[k] = v
            if self._old_cwd is not None:
                os.chdir(self._old_cwd)
                shutil.rmtree(self._tmproot, ignore_errors=True)
            shutil.rmtree(self.tmpdir, ignore_errors=True)
            if gc_was:
                gc.enable()
        self.captured = (cap_out.getvalue(), cap_err.getvalue())
        # a warning issued while the server handles client input is, in a normally configured process, a line on stderr
        for w in getattr(self, "warn_list", ()) or ():
            if issubclass(w.category, (ResourceWarning,)) or "was never awaited" in str(w.message):
                continue        # (tear-down artefacts of the simulation itself)
            self.violate("C18", "server_printed", f"a {w.category.__name__} was issued while handling client input - by default it is printed on the "
                         f"server's stderr: {w.filename}:{w.lineno}: {w.message}")
            break
        if self.worker_prints:
            # what the application's own workers printed must have reached the console - all of it, and nothing else
            lines = self.captured[0].split("\n")
            mine = [ln for ln in lines if ln.startswith("WORKERSAYS ")]
            if len(mine) != self.worker_prints:
                self.violate("C18", "console_output_diverted", f"user code printed {self.worker_prints} lines, {len(mine)} reached the console")
            self.captured = ("\n".join(ln for ln in lines if not ln.startswith("WORKERSAYS ")).strip("\n"), self.captured[1])
            for c in self.clients.values():
                if c.kind == "raw" and c.connected and any("WORKERSAYS" in r for r in c.replies()):
                    self.violate("C18", "foreign_output", f"client {c.label}: a reply contains console output of user code")
                    break
        if self.captured[0] or self.captured[1]:
            self.violate("C18", "server_printed", f"something was printed on the server's stdout/stderr: {self.captured[0][:80]!r} {self.captured[1][:80]!r}")
        return self

    def end_of_steps(self):
        """Hook: property-specific final checks are added by the engine through run['final']."""
        if getattr(self, "stalled", False):
            msg = "the event loop was kept busy inside ONE handle for seconds of CPU time (interrupted by the watchdog): " \
                  "every session, the pool's tasks and the ability to stop the server were frozen meanwhile"
            self.violate("C19", "loop_stalled", msg)
            self.violate("C18", "loop_stalled", msg)
        for name in self.run.get("final", ()):
            getattr(self, "_final_" + name)()

    def _teardown(self):
        self.torn = True
        self.stats["handles"] = self.loop.handles_run
        self.stats["vtime_ms"] = int(self.loop.time() * 1000)
        for k, v in self.loop.net.stats.items():
            self.stats["net:" + k] += v
        for ct, st in self.loop.net.conns:
            for t in (ct, st):
                if not t._lost:
                    t.abort()
        for t in list(asyncio.all_tasks(self.loop)):
            if not t.done():
                t.cancel()
        try:
            self.loop.run_until_idle(5000)
        except BaseException:
            pass
        self.loop.finish()
        try:
            from asyncio_taskpool.pool import BaseTaskPool
            BaseTaskPool._pools.clear()
        except Exception:
            pass

    # ------------------------------------------------------------------ final checks (selected per property)
    def session_exceptions(self):
        out = []
        for ctx in self.loop.exc_log:
            msg = ctx.get("message", "")
            exc = ctx.get("exception")
            out.append((msg, exc, ctx.get("transport")))
        return out

    def _final_sessions_clean(self):
        """C18: no session ended with an exception while its client was still connected."""
        for msg, exc, tr in self.session_exceptions():
            c = next((c for c in self.clients.values() if c.st is tr), None)
            if isinstance(exc, ConnectionError) and (c is None or c.gone):
                continue
            if c is not None and c.bad_handshake:
                continue      # a malformed handshake is outside C18 (it is about lines sent after the handshake)
            if exc is None:
                continue
            sig = None
            if isinstance(exc, ValueError) and "chunk" in str(exc) and self.overlong_lines():
                # recorded finding F-LONGLINE: a line longer than the stream reader's limit (64 KiB) ends the session
                sig = "F-LONGLINE"
            if isinstance(exc, asyncio.CancelledError) and self.early_dead_tasks():
                # recorded finding F-EARLY reached through a session: gather-and-close / flush raise the CancelledError of
                # a task that was cancelled before its first step, and that BaseException ends the session
                sig = "F-EARLY"
            self.violate("C18", "session_exception", f"{msg}: {type(exc).__name__}: {exc}" + (f" (client {c.label})" if c else ""), signature=sig)

    def _final_reply_counts(self):
        """C18: exactly one server write per complete non-blank line, in order (blocking commands may pend)."""
        for c in self.clients.values():
            if c.kind != "raw" or not c.connected or not c.handshake_sent:
                continue
            writes = c.server_writes()
            if not writes:
                self.violate("C18", "no_handshake_reply", f"client {c.label}: no reply to the handshake")
                continue
            replies = c.replies()
            lines = c.lines
            blank = next((i for i, ln in enumerate(lines) if not ln.strip()), None)
            if blank is not None:
                # a blank line ends the session by design; the property quantifies over non-blank lines
                lines = lines[:blank]
                self.stats["probe:blank_line_ended_session"] += 1
                if len(replies) > len(lines):
                    self.violate("C18", "too_many_replies", f"client {c.label}: {len(replies)} replies for {len(lines)} lines")
                elif len(replies) == len(lines):
                    continue
            n_lines = len(lines)
            at_stop = getattr(c, "lines_at_stop", None)
            if at_stop is not None and at_stop < n_lines:
                # the serving task was cancelled: a session answers what it was sent before that (waiting commands when
                # their wait is over) and at most one more line; whether later lines are still read is not specified
                if len(replies) > at_stop + 1:
                    self.violate("C18", "too_many_replies", f"client {c.label}: {len(replies)} replies, {at_stop} lines before the stop")
                lines = lines[:max(at_stop, min(len(replies), at_stop + 1))]
                n_lines = len(lines)
            if c.gone and c.gone != "eof":
                if len(replies) > n_lines:
                    self.violate("C18", "too_many_replies", f"client {c.label}: {len(replies)} replies for {n_lines} lines")
                continue
            if c.gone == "eof":
                # the client only closed its sending side and keeps reading: every line it sent before still gets its reply,
                # and the reply must reach it (the connection is closed in an orderly way afterwards, not reset)
                self.stats["probe:client_half_closed_and_kept_reading"] += 1
                if not c.ct._stalled and bytes(c.recv) != b"".join(writes) and len(replies) >= n_lines:
                    self.violate("C18", "replies_lost_after_eof", f"client {c.label} half-closed after {n_lines} lines: the server wrote {len(replies)} replies "
                                 f"({sum(map(len, writes))} bytes) but only {len(c.recv)} bytes arrived (connection lost: {c.lost_exc!r})")
            if len(replies) > n_lines:
                self.violate("C18", "too_many_replies", f"client {c.label}: {len(replies)} replies for {n_lines} lines")
            elif len(replies) < n_lines:
                nxt = lines[len(replies)].strip().split(" ")[0]
                if nxt in BLOCKING and self._wait_not_over(nxt):
                    self.stats["probe:blocking_command_pending"] += 1
                else:
                    killed = self.early_dead_tasks() and any(isinstance(e, asyncio.CancelledError) for _, e, _ in self.session_exceptions())
                    sig = "F-EARLY" if killed else None
                    if any(len(ln.encode()) + 1 > STREAM_LIMIT for ln in lines[:len(replies) + 1]):
                        sig = "F-LONGLINE"
                    self.violate("C18", "missing_reply", f"client {c.label}: {len(replies)} replies for {n_lines} lines; unanswered: {lines[len(replies)][:80]!r}",
                                 signature=sig)
            # the client must have received exactly what the server wrote
            if not c.ct._stalled and bytes(c.recv) != b"".join(writes) and not c.lost_exc:
                self.violate("C18", "stream_mismatch", f"client {c.label}: received bytes differ from what the server wrote")

    def _wait_not_over(self, cmd):
        live = sum(1 for r in self.invocations if r["state"] == "live")
        if cmd == "until-closed":
            return not self.pool_closed()
        # a spawner may be waiting for room (e.g. after 'pool-size 0'): the wait is legitimately not over
        return live > 0 or self.pool.num_running > 0 or self.pool.is_full

    def pool_closed(self):
        """Closed == some gather-and-close has been answered with ok, or (asked through the public API, used by the final
        checks only) a spawn request that is invalid anyway is refused with PoolIsClosed."""
        from asyncio_taskpool.exceptions import PoolIsClosed
        try:
            if hasattr(self.pool, "start"):
                self.pool.start(0)
            else:
                self.pool.map(ctlworkers.work, [], num_concurrent=0)
        except PoolIsClosed:
            return True
        except Exception:
            pass
        for c in self.clients.values():
            if c.kind != "raw" or c.ct is None:
                continue
            reps = c.replies()
            for i, line in enumerate(c.lines):
                if line.strip().split(" ")[0] == "gather-and-close" and i < len(reps) and reps[i].strip() == "ok":
                    return True
        return False

    def _final_tokens(self):
        """C18: a reply contains only the output of its own command."""
        toks = self.run.get("tokens", {})
        for c in self.clients.values():
            if c.kind != "raw" or not c.connected:
                continue
            replies = c.replies()
            for i, rep in enumerate(replies):
                own = toks.get(f"{c.label}:{i}")
                for key, tok in toks.items():
                    if tok != own and tok in rep:
                        self.violate("C18", "foreign_output", f"client {c.label} reply {i} contains token {tok!r} of line {key}")
                        return
                if not rep.endswith("\n"):
                    self.violate("C18", "reply_newline", f"client {c.label} reply {i} does not end with a newline")


from .extcls import extended_class  # noqa: E402,F401
