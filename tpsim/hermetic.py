"""Make simulated runs independent of each other: module-level / class-level mutable containers
(and lru_caches) of the library under test are restored to their import-time contents before
every run, so that a process-global cache in the code under test cannot carry state from one run
into the next (which would break replay: one seed must be one execution)."""
import copy
import functools
import sys
import types

_snap = None


def _containers():
    out = []
    caches = []
    for name, mod in list(sys.modules.items()):
        if not name.startswith("asyncio_taskpool") or mod is None:
            continue
        for k, v in list(vars(mod).items()):
            if k.startswith("__"):
                continue
            if type(v) in (dict, list, set):
                out.append(v)
            elif isinstance(v, functools._lru_cache_wrapper):
                caches.append(v)
            elif isinstance(v, type) and getattr(v, "__module__", None) == name:
                for ak, av in list(vars(v).items()):
                    if type(av) in (dict, list, set) and not ak.startswith("__"):
                        out.append(av)
                    elif isinstance(av, functools._lru_cache_wrapper):
                        caches.append(av)
    return out, caches


def reset_library_state():
    global _snap
    import asyncio_taskpool.pool  # noqa: F401
    import asyncio_taskpool.queue_context  # noqa: F401
    try:
        import asyncio_taskpool.control.server  # noqa: F401
        import asyncio_taskpool.control.__main__  # noqa: F401
    except Exception:  # pragma: no cover
        pass
    if _snap is None:
        conts, caches = _containers()
        _snap = ([(c, copy.copy(c)) for c in conts], caches)
        # import-time contents of the pool registry are irrelevant: start every run empty
        return
    for c, orig in _snap[0]:
        if type(c) is list:
            c[:] = orig
        else:
            c.clear()
            c.update(orig)
    for f in _snap[1]:
        f.cache_clear()
