"""Engine for C20 (Queue context manager)."""
from __future__ import annotations

import copy
import itertools
import random

from .queuesim import QSim, QGen
from .shrink import shrink
from .util import subseed

BUDGET = {"quick": 30, "thorough": 600}
CHUNK = {"quick": 100, "thorough": 200}
QUICK_RANDOM = 20000
QUICK_SWEEPS = 400


def gen_run(seed):
    g = QGen(seed)
    run = {"prop": "C20", "seed": seed, "config": g.config(), "steps": []}
    sim = QSim(run)
    sim.execute(g.next_step)
    return sim


def digest_for_seed(prop, seed):
    return gen_run(seed).digest()


def scale_run(K, off, mode, seed):
    """Scale: a backlog of hundreds / a thousand items, long streaks of takes that never have to wait, and a consumer
    cancellation placed at each of the first handles of the K-th consecutive take (K around powers of two and ten)."""
    rng = random.Random(seed)
    steps = []
    lab = 0
    if mode == "backlog":
        n = K
        steps += [{"op": "put"} for _ in range(n)]
        steps.append({"op": "join"})
        for i in range(n):
            lab += 1
            steps.append({"op": "consumer", "c": lab, "g": 0 if rng.random() < 0.9 else 1})
            if rng.random() < 0.3:
                steps.append({"op": "run", "n": rng.choice([1, 2, 4])})
            if i % 50 == 49:
                steps.append({"op": "idle"})
        steps.append({"op": "idle"})
    else:
        steps += [{"op": "put"} for _ in range(K + 3)]
        for i in range(K - 1):
            lab += 1
            steps += [{"op": "consumer", "c": lab, "g": 0}, {"op": "run", "n": 4}]
        lab += 1
        steps.append({"op": "consumer", "c": lab, "g": rng.choice([0, 0, 1])})
        if off:
            steps.append({"op": "run", "n": off})
        steps += [{"op": "cancel", "c": lab}, {"op": "idle"}, {"op": "join"}]
        for i in range(4):
            lab += 1
            steps += [{"op": "consumer", "c": lab, "g": 0}, {"op": "idle"}]
    return {"prop": "C20", "seed": seed, "config": {"hmask": 0, "maxsize": 0}, "steps": steps, "scale": [K, off, mode]}


def units(prop, tier, seed):
    order = itertools.count()
    for K in (64, 100, 128, 256):
        for off in range(5):
            yield ("scale", (K, off, "streak", subseed(seed, prop, "scale", K, off)), next(order))
    for K in (130, 300, 1030, 1100):
        yield ("scale", (K, 0, "backlog", subseed(seed, prop, "backlog", K)), next(order))
    if tier == "quick":
        for i in range(QUICK_SWEEPS):
            yield ("sweep", subseed(seed, prop, "sweep", i), next(order))
        for i in range(QUICK_RANDOM):
            yield ("rand", subseed(seed, prop, "rand", i), next(order))
    else:
        i = 0
        while True:
            for _ in range(40):
                yield ("rand", subseed(seed, prop, "rand", i), next(order))
                i += 1
            yield ("sweep", subseed(seed, prop, "sweep", i), next(order))


def _nontrivial(sim):
    st = sim.stats
    return bool(st.get("fault:cancelled_while_waiting") or st.get("fault:cancelled_inside_block")
                or st.get("fault:body_raises") or (st.get("op:join") and sim.taken))


def _account(sim, agg, order, kind, sample=True):
    agg.evaluations += 1
    agg.stats["kind:" + kind] += 1
    for k, v in sim.stats.items():
        agg.stats[k] += v
    if _nontrivial(sim):
        agg.nontrivial.add(int(sim.digest(), 16))
        if sample and len(agg.samples) < 3:
            agg.samples.append({"config": sim.run["config"], "steps": sim.run["steps"][:30], "inject": sim.run.get("inject", [])})
    if sim.viol and len(agg.violations) < 5:
        v = sim.viol[0]
        agg.violations.append({"order": order, "prop": "C20", "oracle": v["oracle"], "msg": v["msg"],
                               "run": copy.deepcopy(sim.run), "engine": "queue"})


def exec_unit(prop, unit, agg):
    kind, seed, order = unit
    if kind == "scale":
        K, off, mode, sd = seed
        sim = QSim(scale_run(K, off, mode, sd))
        sim.execute()
        agg.stats["probe:scale_" + mode] += 1
        _account(sim, agg, order, "scale", sample=False)
        return
    if kind == "rand":
        _account(gen_run(seed), agg, order, "rand")
        return
    # sweep: one (and, on short base runs, two) consumer cancellations at every handle boundary
    rng = random.Random(seed)
    base = gen_run(seed)
    _account(base, agg, order, "sweep_base")
    if base.viol:
        return
    labels = [c for c in base.consumers if c < 9000]
    if not labels:
        return
    L = min(base.handles_before_quiesce, 60)
    steps = base.run["steps"]
    target = rng.choice(labels)
    for h in range(L + 1):
        run = {"prop": "C20", "seed": seed, "config": base.run["config"], "steps": steps,
               "inject": [{"h": h, "step": {"op": "cancel", "c": target}}]}
        sim = QSim(copy.deepcopy(run)).execute()
        agg.stats["sweep_positions"] += 1
        _account(sim, agg, order, "sweep", sample=False)
        if sim.viol:
            return
    if L <= 14 and len(labels) >= 2:
        other = rng.choice([x for x in labels if x != target])
        for h1 in range(L + 1):
            for h2 in range(h1, L + 1):
                run = {"prop": "C20", "seed": seed, "config": base.run["config"], "steps": steps,
                       "inject": [{"h": h1, "step": {"op": "cancel", "c": target}},
                                  {"h": h2, "step": {"op": "cancel", "c": other}}]}
                sim = QSim(copy.deepcopy(run)).execute()
                agg.stats["sweep_pair_positions"] += 1
                _account(sim, agg, order, "sweep2", sample=False)
                if sim.viol:
                    return


def replay(prop, payload):
    sim = QSim(copy.deepcopy(payload["run"])).execute()
    return {"violations": sim.viol, "digest": sim.digest()}


def minimise(prop, v):
    oracle = v["oracle"]

    def fails(run):
        try:
            sim = QSim(copy.deepcopy(run)).execute()
        except Exception:
            return False
        return any(x["oracle"] == oracle for x in sim.viol)

    small = shrink(v["run"], fails)
    sim = QSim(copy.deepcopy(small)).execute()
    msg = next((x["msg"] for x in sim.viol if x["oracle"] == oracle), v["msg"])
    return {"property": prop, "oracle": oracle, "msg": msg, "run": small, "digest": sim.digest(), "engine": "queue",
            "original_steps": len(v["run"]["steps"]), "minimised_steps": len(small["steps"])}


def evidence(prop, tier, seed, total, wall, known_hit, real):
    st = total.stats
    ev = total.evaluations
    cov = {
        "evaluations": ev,
        "distinct_nontrivial": len(total.nontrivial),
        "rule": "seeded runs of producers/consumers/joiners + consumer-cancel placed at every handle boundary (pairs on short runs); non-trivial = a consumer was cancelled, a body raised, or a join() ran against taken items; distinct by event-log digest",
        "samples": total.samples[:3] or [{"note": "none"}],
        "runs_per_hour": int(ev / wall * 3600) if wall > 0 else 0,
        "seeds_per_hour": int((st.get("kind:rand", 0) + st.get("kind:sweep_base", 0)) / wall * 3600) if wall > 0 else 0,
        "handles_executed": st.get("handles", 0),
        "idle_points_checked": st.get("idle_points", 0),
        "simulated_time_s": 0.0,
        "simulated_time_note": "no timers in this component; progress is measured in loop handles",
        "unit_kinds": {k[5:]: v for k, v in st.items() if k.startswith("kind:")},
        "faults_fired": {k[6:]: v for k, v in sorted(st.items()) if k.startswith("fault:")},
        "steps_executed": {k[3:]: v for k, v in sorted(st.items()) if k.startswith("op:")},
        "sweep_positions": st.get("sweep_positions", 0), "sweep_pair_positions": st.get("sweep_pair_positions", 0),
        "components": {"real": ["asyncio_taskpool.queue_context.Queue", "asyncio.Queue/Event/Task (CPython 3.12.1)"],
                       "stub": ["event loop (SimLoop)", "producers, consumers' bodies, joiners (harness-owned, gated)"]},
        "exhaustive": False,
    }
    return {"property_id": prop, "tier": tier, "seed": seed, "level": "exploration", "coverage": cov,
            "assumptions": ["CPython asyncio.Queue runs for real", "sampling + single/pair fault placement sweeps, not enumeration"],
            "wall_s": round(wall, 2)}
