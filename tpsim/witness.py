"""Builds the committed minimal witness replays for the recorded findings (run by hand:
python -m tpsim.witness). A witness is a hazard-family run, minimised while the same oracle fails
and the finding's trigger still fires."""
import copy
import json
import os
import random

from . import hazards
from .poolsim import run_sim
from .shrink import shrink
from .util import VERIF, load_known


def build():
    os.makedirs(os.path.join(VERIF, "witness"), exist_ok=True)
    for e in load_known()["known"]:
        tag, prop = e["id"], e["property"]
        if tag == "F-SIZE":
            build_size(e)
            continue
        if tag == "F-C16":
            build_c16(e)
            continue
        if tag == "F-PARKED":
            build_parked(e)
            continue
        if tag == "F-LONGLINE":
            build_longline(e)
            continue
        if tag == "F-EARLY" and prop == "C18":
            build_early_c18(e)
            continue
        if tag not in hazards.FAMILIES or tag == "OWN-ITER":
            continue
        found = None
        for seed in range(5000):
            rng = random.Random(seed)
            run = hazards._early_run(rng, prop) if tag == "F-EARLY" else hazards._lock_run(rng, prop)
            sim = run_sim(copy.deepcopy(run), {prop})
            hit = [v for v in sim.viol if v["prop"] == prop and v["oracle"] in e["oracles"]]
            if hit and hazards._triggered(tag, sim):
                found = (run, hit[0]["oracle"])
                break
        if not found:
            print("no witness for", tag, prop)
            continue
        run, oracle = found

        def fails(r):
            s = run_sim(copy.deepcopy(r), {prop})
            return hazards._triggered(tag, s) and any(v["prop"] == prop and v["oracle"] == oracle for v in s.viol)

        small = shrink(run, fails)
        s = run_sim(copy.deepcopy(small), {prop})
        msg = next(v["msg"] for v in s.viol if v["oracle"] == oracle)
        small.update({"prop": prop, "hazard": tag, "clean": False})
        payload = {"property": prop, "oracle": oracle, "signature": tag, "msg": msg, "run": small,
                   "digest": s.digest(), "engine": "pool", "finding": tag}
        path = os.path.join(VERIF, e["witness"])
        with open(path, "w") as f:
            json.dump(payload, f, indent=1, sort_keys=True)
        print(tag, prop, oracle, len(small["steps"]), "steps ->", e["witness"])


def build_c16(e):
    from . import ctl_engine
    from .ctlsim import CtlSim
    run = ctl_engine.c16_run(random.Random(0), True, "T", 80, "tcp")
    run["steps"] = [{"op": "start"}, {"op": "idle"}, {"op": "connect", "c": 1, "w": 80}, {"op": "idle"}]
    sim = CtlSim(copy.deepcopy(run), {"C16"}).execute()
    v = next(v for v in sim.viol if v["oracle"] == "handshake_unanswered")
    payload = {"property": "C16", "oracle": v["oracle"], "signature": "F-C16", "msg": v["msg"], "run": run,
               "digest": sim.digest(), "engine": "ctl", "finding": "F-C16"}
    with open(os.path.join(VERIF, e["witness"]), "w") as f:
        json.dump(payload, f, indent=1, sort_keys=True)
    print("F-C16 C16 ->", e["witness"])


def build_early_c18(e):
    from . import ctl_engine
    from .ctlsim import CtlSim
    run = ctl_engine.c18_killed_session_run(random.Random(0))
    sim = CtlSim(copy.deepcopy(run), {"C18"}).execute()
    v = next(v for v in sim.viol if v["oracle"] == "session_exception" and v.get("signature") == "F-EARLY")
    payload = {"property": "C18", "oracle": v["oracle"], "signature": "F-EARLY", "msg": v["msg"], "run": run,
               "digest": sim.digest(), "engine": "ctl", "finding": "F-EARLY"}
    with open(os.path.join(VERIF, e["witness"]), "w") as f:
        json.dump(payload, f, indent=1, sort_keys=True)
    print("F-EARLY C18 ->", e["witness"])


def build_longline(e):
    from . import ctl_engine
    from .ctlsim import CtlSim
    run = ctl_engine.c18_longline_run(random.Random(3))
    sim = CtlSim(copy.deepcopy(run), {"C18"}).execute()
    v = next(v for v in sim.viol if v["oracle"] == "session_exception" and v.get("signature") == "F-LONGLINE")
    payload = {"property": "C18", "oracle": v["oracle"], "signature": "F-LONGLINE", "msg": v["msg"], "run": run,
               "digest": sim.digest(), "engine": "ctl", "finding": "F-LONGLINE"}
    with open(os.path.join(VERIF, e["witness"]), "w") as f:
        json.dump(payload, f, indent=1, sort_keys=True)
    print("F-LONGLINE C18 ->", e["witness"])


def build_parked(e):
    from . import ctl_engine
    from .ctlsim import CtlSim
    run = ctl_engine.c19_parked_run(random.Random(0))
    run["config"]["transport"] = "unix"
    run["steps"] = [{"op": "start"}, {"op": "idle"}, {"op": "connect", "c": 1, "w": 80}, {"op": "idle"},
                    {"op": "line", "c": 1, "text": "until-closed"}, {"op": "idle"},
                    {"op": "close", "c": 1, "how": "close"}, {"op": "idle"}, {"op": "stop"}, {"op": "idle"}]
    sim = CtlSim(copy.deepcopy(run), {"C19"}).execute()
    v = next(v for v in sim.viol if v["oracle"] == "serving_task_pending")
    payload = {"property": "C19", "oracle": v["oracle"], "signature": "F-PARKED", "msg": v["msg"], "run": run,
               "digest": sim.digest(), "engine": "ctl", "finding": "F-PARKED"}
    with open(os.path.join(VERIF, e["witness"]), "w") as f:
        json.dump(payload, f, indent=1, sort_keys=True)
    print("F-PARKED C19 ->", e["witness"])


def build_size(e):
    from . import size_family
    import itertools
    prop = "C15"
    for u in size_family.units(prop, "quick", 0, itertools.count()):
        g, seed = u[1]
        if g == "witness":
            continue
        run = size_family.make_run(g, seed)
        sim = run_sim(copy.deepcopy(run), {prop})
        if {"getter_while_running", "limit_in_force"} <= {v["oracle"] for v in sim.viol}:
            break
    oracle = "limit_in_force"

    def fails(r):
        s = run_sim(copy.deepcopy(r), {prop})
        return any(v["oracle"] == oracle for v in s.viol)
    small = shrink(run, fails)
    s = run_sim(copy.deepcopy(small), {prop})
    msg = next(v["msg"] for v in s.viol if v["oracle"] == oracle)
    payload = {"property": prop, "oracle": oracle, "signature": "F-SIZE", "msg": msg, "run": small,
               "digest": s.digest(), "engine": "pool", "finding": "F-SIZE"}
    with open(os.path.join(VERIF, e["witness"]), "w") as f:
        json.dump(payload, f, indent=1, sort_keys=True)
    print("F-SIZE C15", oracle, len(small["steps"]), "steps ->", e["witness"])


if __name__ == "__main__":
    build()
