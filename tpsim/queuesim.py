"""C20: the real asyncio_taskpool.queue_context.Queue on SimLoop with harness-owned producers,
consumers (``async with q as item``), joiners and faults (body raises, consumer cancelled while
waiting / inside the block / in the tick an item arrives)."""
from __future__ import annotations

import asyncio
import gc
import hashlib
import random
from asyncio import CancelledError
from collections import Counter

from .loop import SimLoop, running



class _FalsyItem:
    """A user object that is false in a boolean context and has length 0 (an empty batch, a zero reading)."""
    __slots__ = ("n",)

    def __init__(self, n):
        self.n = n

    def __bool__(self):
        return False

    def __len__(self):
        return 0

    def __repr__(self):
        return f"<falsy item {self.n}>"


_NATIVE_FALSY = {3: 0, 6: "", 9: None, 12: (), 15: b""}


def _item_value(n):
    """Items are arbitrary user values, all distinct: mostly the running number, every fourth a false-valued object,
    and once each the built-in false values (round 12: `if item := q.get_nowait()`)."""
    if n in _NATIVE_FALSY:
        return _NATIVE_FALSY[n]
    if n % 4 == 0:
        return _FalsyItem(n)
    return n

class BodyError(Exception):
    pass


class BodyBaseError(BaseException):
    """A block may also be left by an exception that is not an Exception (and not a CancelledError)."""


class QSim:
    MAX_VIOL = 8

    def __init__(self, run):
        self.run = run
        cfg = run["config"]
        self.loop = SimLoop(hash_mask=cfg.get("hmask", 0))
        self.loop.set_debug(False)
        self.events = []
        self.viol = []
        self.stats = Counter()
        self.seq = 0
        self.puts = 0              # items put so far (enqueued)
        self.taken = 0             # items handed to a block
        self.exits = 0             # blocks exited
        self.consumers = {}        # label -> dict
        self.joiners = []
        self.putters = []
        self.gates = {}
        self.remaining = 0
        self.inject = []
        self.torn = False
        self.item_no = 0
        self.items_seen = []

    def ev(self, *a):
        self.events.append(a)

    def violate(self, oracle, msg):
        if len(self.viol) < self.MAX_VIOL:
            self.viol.append({"prop": "C20", "oracle": oracle, "msg": msg, "handle": self.loop.handles_run})
        self.ev("VIOL", oracle)

    def digest(self):
        return hashlib.sha1(repr(self.events).encode()).hexdigest()[:16]

    # ---------------------------------------------------------------- model
    def unfinished(self):
        return self.puts - self.exits

    def _zero_check(self):
        if self.unfinished() == 0:
            for j in self.joiners:
                if j["state"] == "active":
                    j["zero_seen"] = True

    # ---------------------------------------------------------------- actors
    async def _block(self, c, depth):
        q = self.q
        c["waiting"] = True
        async with q as item:
            c["waiting"] = False
            c["state"] = "inside"
            c["item"] = item
            self.taken += 1
            self.ev("enter", c["label"], item, depth)
            if item in self.items_seen:
                self.violate("item_twice", f"item {item} handed out twice")
            self.items_seen.append(item)
            try:
                for g in range(c["gates"]):
                    fut = self.loop.create_future()
                    self.gates[("b", c["label"], g + 10 * depth)] = fut
                    await fut
                if depth == 0 and c.get("nest"):
                    # the same task handles a second item of the same queue inside its block
                    self.stats["fault:nested_block"] += 1
                    await self._block(c, 1)
                if depth == 0 and c.get("manual") and not q.empty():
                    it2 = q.get_nowait()
                    self.taken += 1
                    self.items_seen.append(it2)
                    self.ev("manual_get", c["label"], it2)
                    self.stats["fault:manual_get_inside_block"] += 1
                    q.item_processed()
                    self.exits += 1
                    self._zero_check()
                if depth == 0 and c.get("end") == "x":
                    self.stats["fault:body_raises"] += 1
                    raise BodyError(c["label"])
                if depth == 0 and c.get("end") == "bx":
                    self.stats["fault:body_raises_base_exception"] += 1
                    raise BodyBaseError(c["label"])
            finally:
                if not self.torn:
                    self.exits += 1
                    self.ev("exit", c["label"], depth)
                    if depth == 0:
                        c["state"] = "exiting"
                    self._zero_check()

    async def _agen_block(self, c):
        """The block lives inside an async generator that yields the item; the consumer closes the generator."""
        q = self.q
        c["waiting"] = True
        async with q as item:
            c["waiting"] = False
            c["state"] = "inside"
            self.taken += 1
            self.ev("enter", c["label"], item, "agen")
            if item in self.items_seen:
                self.violate("item_twice", f"item {item} handed out twice")
            self.items_seen.append(item)
            try:
                yield item
            finally:
                if not self.torn:
                    self.exits += 1
                    self.ev("exit", c["label"], "agen")
                    c["state"] = "exiting"
                    self._zero_check()

    async def _consumer(self, c):
        c["state"] = "waiting"
        c["waiting"] = False
        try:
            if c.get("end") in ("gx", "gxs"):
                self.stats["fault:block_left_by_generator_close"] += 1
                g = self._agen_block(c)
                try:
                    if c.get("end") == "gxs":
                        # the block is ENTERED by another task (a helper pulls the first item) and LEFT by this one
                        self.stats["fault:block_entered_and_left_by_different_tasks"] += 1
                        await self.loop.create_task(g.__anext__())
                    else:
                        await g.__anext__()
                    for k in range(c["gates"]):
                        fut = self.loop.create_future()
                        self.gates[("b", c["label"], k)] = fut
                        await fut
                finally:
                    await g.aclose()      # GeneratorExit is thrown into the block (also when the consumer fails or is cancelled)
            else:
                await self._block(c, 0)
        except CancelledError:
            if not self.torn:
                c["outcome"] = "cancelled"
                if c["state"] == "waiting":
                    self.stats["fault:cancelled_while_waiting"] += 1
                else:
                    self.stats["fault:cancelled_inside_block"] += 1
        except (BodyError, BodyBaseError):
            c["outcome"] = "raised"
        except BaseException as e:  # e.g. ValueError: task_done() called too many times
            if not self.torn:
                c["outcome"] = "error"
                self.violate("consumer_exception", f"consumer {c['label']} ended with {type(e).__name__}: {e}")
        else:
            c["outcome"] = "done"
        finally:
            c["state"] = "over"
            c["waiting"] = False

    async def _joiner(self, j):
        j["state"] = "active"
        j["zero_seen"] = self.unfinished() == 0
        self.ev("join_start", j["label"], self.unfinished())
        try:
            await self.q.join()
        except BaseException as e:
            if not self.torn:
                self.violate("join_exception", f"join() raised {type(e).__name__}")
            j["state"] = "raised"
            return
        if self.torn:
            return
        j["state"] = "returned"
        self.ev("join_return", j["label"])
        if not j["zero_seen"]:
            self.violate("join_early", f"join() returned although {self.unfinished()} item(s) were never taken and processed since it was called")

    async def _putter(self, p):
        p["state"] = "blocked"
        await self.q.put(p["item"])
        if self.torn:
            return
        p["state"] = "done"
        self.puts += 1
        self.ev("put_done", p["item"])

    # ---------------------------------------------------------------- steps
    def exec_step(self, st):
        op = st["op"]
        if op == "put":
            self.item_no += 1
            # (priority queues order their items: those get the running numbers only)
            item = self.item_no if isinstance(self.q, asyncio.PriorityQueue) else _item_value(self.item_no)
            if self.q.full():
                p = {"item": item}
                self.putters.append(p)
                p["task"] = self.loop.create_task(self._putter(p))
                self.stats["fault:blocking_put"] += 1
            else:
                try:
                    self.q.put_nowait(item)
                except Exception as e:
                    # the queue is not full: putting is plain asyncio.Queue behaviour and cannot fail
                    self.violate("put_raised", f"put_nowait({item!r}) on a queue that is not full raised {type(e).__name__}: {e}")
                    return
                self.puts += 1
                self.ev("put", item)
        elif op == "consumer":
            lab = st["c"]
            if lab in self.consumers:
                return
            c = {"label": lab, "gates": st.get("g", 1), "end": st.get("end"), "state": "new", "outcome": None,
                 "nest": st.get("nest"), "manual": st.get("manual"), "waiting": False}
            self.consumers[lab] = c
            c["task"] = self.loop.create_task(self._consumer(c))
        elif op == "cancel":
            c = self.consumers.get(st["c"])
            if c is None or c["task"].done() or c["state"] in ("new", "exiting", "over"):
                return
            if c.get("waiting") and self.q.qsize() > 0:
                self.stats["fault:cancelled_as_item_arrives"] += 1
            c["task"].cancel()
            self.ev("cancel", st["c"], c["state"])
        elif op == "gate":
            key = ("b", st["c"], st.get("g", 0))
            fut = self.gates.get(key)
            if fut is None or fut.done():
                return
            del self.gates[key]
            if st.get("how") == "x":
                self.stats["fault:body_raises"] += 1
                fut.set_exception(BodyError(st["c"]))
            else:
                fut.set_result(None)
        elif op == "join":
            j = {"label": len(self.joiners), "state": "new", "zero_seen": False}
            self.joiners.append(j)
            j["task"] = self.loop.create_task(self._joiner(j))
        elif op == "run":
            self._run_handles(st.get("n", 1))
        elif op == "idle":
            self.run_to_idle()
            self.check_idle()
        self.stats["op:" + op] += 1

    def _check_boundary(self):
        q = self.q
        exp = self.puts - self.taken
        got = q.qsize()
        if got != exp:
            self.violate("qsize", f"qsize()={got}, items put and not taken={exp}")

    def _run_handles(self, n):
        ran = 0
        while ran < n:
            if self.inject and self.inject[0][0] <= self.loop.handles_run:
                _, st = self.inject.pop(0)
                self.exec_step(st)
                continue
            if self.remaining <= 0:
                self.remaining = self.loop.begin_iteration()
                if self.remaining == 0:
                    break
            self.remaining -= 1
            if self.loop.run_one():
                ran += 1
        return ran

    def run_to_idle(self, cap=3000):
        total = 0
        while total < cap:
            r = self._run_handles(cap - total)
            total += r
            if self.remaining <= 0 and self.loop.is_idle():
                if self.inject:
                    _, st = self.inject.pop(0)
                    self.exec_step(st)
                    continue
                return True
        return False

    def check_idle(self):
        self.stats["idle_points"] += 1
        # (qsize is compared at idle points only: between handles an item may legitimately be in transit from the
        # queue to a block - C20 says nothing about qsize, only about what is marked and when join() returns)
        self._check_boundary()
        for j in self.joiners:
            if j["state"] == "active" and j["zero_seen"]:
                self.violate("join_stuck", "idle: every item put so far was taken and its block exited, but join() has not returned")
        for j in self.joiners:
            if j["state"] == "active" and self.unfinished() == 0:
                self.violate("join_stuck", "idle: nothing unfinished, join() still blocked")
        # an item in the queue with a consumer waiting (lost wake-up)
        if self.q.qsize() > 0 and any(c.get("waiting") for c in self.consumers.values()):
            self.violate("lost_wakeup", "idle: item in the queue while a consumer is waiting in __aenter__")

    def execute(self, source=None):
        from asyncio_taskpool.queue_context import Queue
        from .hermetic import reset_library_state
        reset_library_state()
        run = self.run
        self.inject = sorted(([i["h"], i["step"]] for i in run.get("inject", ())), key=lambda x: x[0])
        gc_was = gc.isenabled()
        gc.disable()
        from .loop import Watchdog
        if Watchdog.tripped:
            if gc_was:
                gc.enable()
            self.torn = True
            return self
        wd = Watchdog(self)
        wd.start()
        try:
            with running(self.loop):
                qk = run["config"].get("qcls", 0)
                if qk == 1:
                    qcls = type("PQ", (asyncio.PriorityQueue, Queue), {})     # stdlib ordering first: its _get() does not call super()
                elif qk == 2:
                    qcls = type("LQ", (asyncio.LifoQueue, Queue), {})
                elif qk == 3:
                    qcls = type("QP", (Queue, asyncio.PriorityQueue), {})
                else:
                    qcls = Queue
                self.stats["probe:queue_class_%d" % qk] += 1
                self.q = qcls(maxsize=run["config"].get("maxsize", 0))
                if source is None:
                    for st in run["steps"]:
                        self.exec_step(st)
                        if len(self.viol) >= self.MAX_VIOL:
                            break
                else:
                    while len(self.viol) < self.MAX_VIOL:
                        st = source(self)
                        if st is None:
                            break
                        run["steps"].append(st)
                        self.exec_step(st)
                while self.inject:
                    _, st = self.inject.pop(0)
                    self.exec_step(st)
                self.handles_before_quiesce = self.loop.handles_run
                # quiescence: open all gates, add consumers for leftover items, everything must drain
                for _ in range(200):
                    self.run_to_idle()
                    keys = [k for k, f in self.gates.items() if not f.done()]
                    nested_waiting = [c for c in self.consumers.values() if c.get("waiting") and c["state"] == "inside"]
                    if not keys and not (nested_waiting and self.q.empty()):
                        break
                    for k in keys:
                        self.gates.pop(k).set_result(None)
                    if nested_waiting and self.q.empty():
                        self.exec_step({"op": "put"})      # feed a consumer that waits for its nested item
                self.check_idle()
                n_left = self.q.qsize() + sum(1 for p in self.putters if p["state"] == "blocked")
                for i in range(n_left):
                    self.exec_step({"op": "consumer", "c": 9000 + i, "g": 0})
                self.run_to_idle()
                self.exec_step({"op": "join"})
                self.run_to_idle()
                self.check_idle()
                if getattr(self, "stalled", False):
                    self.violate("loop_stalled", "the event loop was kept busy inside ONE handle for seconds of CPU time (interrupted by the watchdog)")
                if self.unfinished() != 0:
                    self.violate("harness_drain", f"harness could not drain: {self.unfinished()} unfinished")
                self.torn = True
                for t in asyncio.all_tasks(self.loop):
                    t.cancel()
                self.loop.run_until_idle(2000)
                self.stats["handles"] = self.loop.handles_run
                self.loop.finish()
        finally:
            wd.stop()
            if gc_was:
                gc.enable()
        return self


class QGen:
    def __init__(self, seed):
        self.rng = random.Random(seed)
        rng = self.rng
        self.n = rng.choice([4, 6, 10, 16, 24])
        self.big = rng.random() < 0.08         # scale: two-digit numbers of items and consumers
        if self.big:
            self.n = rng.choice([60, 90])
        self.count = 0
        self.clabel = 0
        self.w = {"put": rng.choice([3, 5, 8]), "consumer": rng.choice([2, 4, 6]), "cancel": rng.choice([0, 1, 3, 5]),
                  "gate": 6, "gate_x": rng.choice([0, 1, 2]), "join": rng.choice([1, 2]), "run": 5, "idle": 2}

    def config(self):
        return {"hmask": self.rng.choice([0, 3, 5]), "maxsize": self.rng.choice([0, 0, 1, 2] if not self.big else [0, 10, 12]),
                "qcls": self.rng.choice([0, 0, 0, 1, 2, 3])}

    def next_step(self, sim):
        if self.count >= self.n:
            return None
        self.count += 1
        rng = self.rng
        for _ in range(6):
            k = rng.choices(list(self.w), list(self.w.values()))[0]
            if k == "put":
                return {"op": "put"}
            if k == "consumer" and len(sim.consumers) < (6 if not self.big else 16):
                self.clabel += 1
                st = {"op": "consumer", "c": self.clabel, "g": rng.choice([0, 1, 1, 2])}
                if rng.random() < 0.15:
                    st["end"] = rng.choice(["x", "x", "bx", "gx", "gxs"])
                r = rng.random()
                if r < 0.12:
                    st["nest"] = 1
                elif r < 0.24:
                    st["manual"] = 1
                return st
            if k == "cancel":
                live = [c["label"] for c in sim.consumers.values() if c["state"] in ("waiting", "inside")]
                if live:
                    return {"op": "cancel", "c": rng.choice(live)}
            if k in ("gate", "gate_x"):
                keys = [key for key, f in sim.gates.items() if not f.done()]
                if keys:
                    key = rng.choice(keys)
                    st = {"op": "gate", "c": key[1], "g": key[2]}   # (g >= 10: gate of a nested block)
                    if k == "gate_x":
                        st["how"] = "x"
                    return st
            if k == "join" and len(sim.joiners) < 4:
                return {"op": "join"}
            if k == "run":
                return {"op": "run", "n": rng.choice([1, 1, 2, 3])}
            if k == "idle":
                return {"op": "idle"}
        return {"op": "run", "n": 1}
