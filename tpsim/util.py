import hashlib


def subseed(seed, *parts):
    h = hashlib.sha256(repr((seed,) + parts).encode()).digest()
    return int.from_bytes(h[:7], "big")


def digest_int(hexdigest):
    return int(hexdigest, 16)
