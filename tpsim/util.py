import hashlib


def subseed(seed, *parts):
    h = hashlib.sha256(repr((seed,) + parts).encode()).digest()
    return int.from_bytes(h[:7], "big")


def digest_int(hexdigest):
    return int(hexdigest, 16)


import json as _json
import os as _os

VERIF = _os.path.dirname(_os.path.dirname(_os.path.abspath(__file__)))
_known_cache = None


def load_known():
    global _known_cache
    if _known_cache is None:
        p = _os.path.join(VERIF, "known_findings.json")
        if _os.path.exists(p):
            with open(p) as f:
                _known_cache = _json.load(f)
        else:
            _known_cache = {"known": [], "fixed": []}
    return _known_cache


def known_entry(prop, signature, oracle):
    if signature is None:
        return None
    for e in load_known()["known"]:
        if e["property"] == prop and e["signature"] == signature and oracle in e.get("oracles", ()):
            return e
    return None
