"""Command line front end: ./check <ID> --tier quick|thorough [--seed N] [--replay FILE]

exit 0  property held on everything explored (known findings are listed, not alarms)
exit 1  violation: prints ``VIOLATION property=<id> replay=<path>``
exit 2  harness error (never a pass, never a violation)
"""
from __future__ import annotations

import argparse
import faulthandler
import hashlib
import json
import multiprocessing
import os
import subprocess
import sys
import time
import traceback
from collections import Counter
from concurrent.futures import ProcessPoolExecutor, as_completed

VERIF = os.path.dirname(os.path.dirname(os.path.abspath(__file__)))
REPLAYS = os.path.join(VERIF, "replays")
EVIDENCE = os.path.join(VERIF, "evidence")


from .util import subseed  # noqa: E402,F401


def repo_src():
    return os.environ.get("VERIF_REPO_SRC", "/repo/src")


def assert_library_location():
    import asyncio_taskpool
    want = os.path.realpath(repo_src())
    got = os.path.realpath(os.path.dirname(os.path.dirname(asyncio_taskpool.__file__)))
    if got != want:
        raise SystemExit(f"HARNESS-ERROR: asyncio_taskpool imported from {got}, expected {want}")


# ----------------------------------------------------------------------------- engines
def get_engine(prop):
    n = int(prop[1:])
    if n <= 15:
        from . import pool_engine
        return pool_engine
    if n <= 19:
        from . import ctl_engine
        return ctl_engine
    from . import queue_engine
    return queue_engine


class Agg:
    """Aggregated result of a chunk of units (picklable)."""

    def __init__(self):
        self.evaluations = 0
        self.nontrivial = set()
        self.digests = 0
        self.stats = Counter()
        self.violations = []       # dicts: {unit, prop, oracle, msg, run, signature?}
        self.samples = []
        self.states = set()
        self.errors = []
        self.known = {}            # (signature, oracle) -> first example

    def merge(self, o):
        self.evaluations += o.evaluations
        self.nontrivial |= o.nontrivial
        self.stats.update(o.stats)
        self.violations.extend(o.violations)
        self.states |= o.states
        self.errors.extend(o.errors)
        for k, v in o.known.items():
            self.known.setdefault(k, v)
        for s in o.samples:
            if len(self.samples) < 6:
                self.samples.append(s)


def _work(args):
    prop, units, wall = args
    faulthandler.dump_traceback_later(wall, exit=True)
    eng = get_engine(prop)
    agg = Agg()
    for u in units:
        try:
            eng.exec_unit(prop, u, agg)
        except Exception:
            agg.errors.append((repr(u), traceback.format_exc()))
            if len(agg.errors) > 3:
                break
        if any(v.get("oracle") == "loop_stalled" for v in agg.violations):
            break          # every further unit would cost seconds of spinning: report what we have
    faulthandler.cancel_dump_traceback_later()
    return agg


def run_units(prop, unit_iter, jobs, budget_s, chunk=40, wall=600):
    """Run units from *unit_iter* on *jobs* processes until exhausted or budget_s elapsed."""
    total = Agg()
    t0 = time.time()
    ctx = multiprocessing.get_context("fork")
    exhausted = False
    with ProcessPoolExecutor(max_workers=jobs, mp_context=ctx) as ex:
        pending = set()

        def submit():
            nonlocal exhausted
            units = []
            for u in unit_iter:
                units.append(u)
                if len(units) >= chunk:
                    break
            else:
                exhausted = True
            if units:
                pending.add(ex.submit(_work, (prop, units, wall)))

        while not exhausted and len(pending) < jobs * 2:
            submit()
        while pending:
            done = next(as_completed(pending))
            pending.discard(done)
            try:
                total.merge(done.result())
            except Exception as e:
                total.errors.append(("worker", f"{type(e).__name__}: {e}"))
            if total.errors or len(total.violations) >= 20 or any(v.get("oracle") == "loop_stalled" for v in total.violations):
                for p in pending:
                    p.cancel()
                break
            if not exhausted and (budget_s is None or time.time() - t0 < budget_s):
                submit()
    return total, time.time() - t0


from .util import load_known, known_entry  # noqa: E402


# ----------------------------------------------------------------------------- main
def write_replay(prop, seed, n, payload):
    os.makedirs(REPLAYS, exist_ok=True)
    path = os.path.join(REPLAYS, f"{prop}-{seed}-{n}.json")
    with open(path, "w") as f:
        json.dump(payload, f, indent=1, sort_keys=True)
    return path


def do_replay(path, quiet=False):
    with open(path) as f:
        payload = json.load(f)
    prop = payload["property"]
    eng = get_engine(prop)
    res = eng.replay(prop, payload)
    if not quiet:
        print(f"replay {path}: property={prop} expected oracle={payload.get('oracle')}")
        for v in res["violations"]:
            print(f"  {v['prop']} {v['oracle']}: {v['msg']}")
        print(f"  digest={res['digest']} (recorded {payload.get('digest')})")
    same = any(v["prop"] == prop and v["oracle"] == payload.get("oracle") for v in res["violations"])
    if same and payload.get("digest") and res["digest"] != payload["digest"]:
        print("  NOTE: same violation, different event digest")
    if same:
        print(f"VIOLATION property={prop} replay={path}")
        return 1
    print("  not reproduced")
    return 0


def main(argv=None):
    ap = argparse.ArgumentParser()
    ap.add_argument("prop", nargs="?")
    ap.add_argument("--tier", default=os.environ.get("VERIF_TIER", "quick"))
    ap.add_argument("--seed", type=int, default=int(os.environ.get("VERIF_SEED", "0") or 0))
    ap.add_argument("--replay")
    ap.add_argument("--jobs", type=int, default=int(os.environ.get("VERIF_JOBS", "0") or 0))
    ap.add_argument("--budget", type=float, default=None)
    ap.add_argument("--no-evidence", action="store_true")
    a = ap.parse_args(argv)
    import warnings
    warnings.filterwarnings("ignore", category=RuntimeWarning, message="coroutine .* was never awaited")
    assert_library_location()
    if a.replay:
        return do_replay(a.replay)
    prop = a.prop
    tier = a.tier if a.tier in ("quick", "thorough") else "quick"
    jobs = a.jobs or min(16, os.cpu_count() or 4)
    eng = get_engine(prop)
    budget = a.budget
    if budget is None:
        budget = float(os.environ.get("VERIF_BUDGET_S", "0") or 0) or (eng.BUDGET[tier])
    print(f"check {prop} tier={tier} seed={a.seed} jobs={jobs} budget={budget}s src={repo_src()}")
    t0 = time.time()
    unit_iter = eng.units(prop, tier, a.seed)
    total, wall = run_units(prop, unit_iter, jobs, budget, chunk=eng.CHUNK.get(tier, 40))
    if total.errors:
        for u, tb in total.errors[:3]:
            print(f"HARNESS-ERROR: unit {u}\n{tb}")
        return 2
    known = load_known()
    status = 0
    out_lines = []
    # ---- classify violations
    viols = sorted(total.violations, key=lambda v: v["order"])
    real = []
    known_hit = {}
    for v in viols:
        e = known_entry(prop, v.get("signature"), v["oracle"])
        if e is not None:
            known_hit.setdefault(v["signature"], (e, v))
            continue
        real.append(v)
    for (sig, oracle), v in sorted(total.known.items()):
        e = known_entry(prop, sig, oracle)
        known_hit.setdefault(sig, (e, v))
    for sig, (entry, v) in sorted(known_hit.items()):
        out_lines.append(f"KNOWN-FINDING: property={prop} {entry['id']} [{sig}] {entry['what']}")
    replay_paths = []
    if real:
        status = 1
        seen = set()
        n = 0
        for v in real:
            key = (v["oracle"], v.get("signature"))
            if key in seen:
                continue
            seen.add(key)
            if n >= 3:
                break
            payload = eng.minimise(prop, v)
            path = write_replay(prop, a.seed, n, payload)
            n += 1
            # confirm in a fresh interpreter
            env = dict(os.environ)
            r = subprocess.run([sys.executable, "-m", "tpsim.check", "--replay", path], env=env,
                               capture_output=True, text=True, timeout=300)
            confirmed = r.returncode == 1
            out_lines.append(f"violation {v['prop']}/{v['oracle']}: {v['msg']}"
                             + ("" if confirmed else "  [replay in fresh process did NOT reproduce]"))
            out_lines.append(f"VIOLATION property={prop} replay={path}")
            replay_paths.append(path)
    wall = time.time() - t0
    ev = eng.evidence(prop, tier, a.seed, total, wall, known_hit, real)
    ev["violations"] = len(real)
    if not a.no_evidence:
        os.makedirs(EVIDENCE, exist_ok=True)
        with open(os.path.join(EVIDENCE, f"{prop}.json"), "w") as f:
            json.dump(ev, f, indent=1, sort_keys=True, default=str)
    cov = ev["coverage"]
    print(f"  evaluations={cov['evaluations']} distinct_nontrivial={cov['distinct_nontrivial']} "
          f"wall={wall:.1f}s runs/h={cov.get('runs_per_hour')}")
    for line in out_lines:
        print(line)
    print("RESULT", "PASS" if status == 0 else "FAIL")
    return status


if __name__ == "__main__":
    sys.exit(main())
