"""Command line front end: ./check <ID> --tier quick|thorough [--seed N] [--replay FILE]

exit 0  property held on everything explored (known findings are listed, not alarms)
exit 1  violation: prints ``VIOLATION property=<id> replay=<path>``
exit 2  harness error (never a pass, never a violation)
"""
from __future__ import annotations

import argparse
import faulthandler
import hashlib
import itertools
import json
import re
import multiprocessing
import os
import subprocess
import sys
import time
import traceback
from collections import Counter
from concurrent.futures import ProcessPoolExecutor, as_completed

VERIF = os.path.dirname(os.path.dirname(os.path.abspath(__file__)))
REPLAYS = os.path.join(VERIF, "replays")
EVIDENCE = os.path.join(VERIF, "evidence")


from .util import subseed  # noqa: E402,F401


def repo_src():
    return os.environ.get("VERIF_REPO_SRC", "/repo/src")


def assert_library_location():
    import asyncio_taskpool
    want = os.path.realpath(repo_src())
    got = os.path.realpath(os.path.dirname(os.path.dirname(asyncio_taskpool.__file__)))
    if got != want:
        raise SystemExit(f"HARNESS-ERROR: asyncio_taskpool imported from {got}, expected {want}")


# ----------------------------------------------------------------------------- engines
def get_engine(prop):
    n = int(prop[1:])
    if n <= 15:
        from . import pool_engine
        return pool_engine
    if n <= 19:
        from . import ctl_engine
        return ctl_engine
    from . import queue_engine
    return queue_engine


class Agg:
    """Aggregated result of a chunk of units (picklable)."""

    def __init__(self):
        self.evaluations = 0
        self.nontrivial = set()
        self.digests = 0
        self.stats = Counter()
        self.violations = []       # dicts: {unit, prop, oracle, msg, run, signature?}
        self.samples = []
        self.states = set()
        self.errors = []
        self.known = {}            # (signature, oracle) -> first example

    def merge(self, o):
        self.evaluations += o.evaluations
        self.nontrivial |= o.nontrivial
        self.stats.update(o.stats)
        self.violations.extend(o.violations)
        self.states |= o.states
        self.errors.extend(o.errors)
        for k, v in o.known.items():
            self.known.setdefault(k, v)
        for s in o.samples:
            if len(self.samples) < 6:
                self.samples.append(s)


def _work(args):
    prop, units, wall = args
    faulthandler.dump_traceback_later(wall, exit=True)
    eng = get_engine(prop)
    agg = Agg()
    for u in units:
        try:
            eng.exec_unit(prop, u, agg)
        except Exception:
            agg.errors.append((repr(u), traceback.format_exc()))
            if len(agg.errors) > 3:
                break
        if any(v.get("oracle") == "loop_stalled" for v in agg.violations):
            break          # every further unit would cost seconds of spinning: report what we have
    faulthandler.cancel_dump_traceback_later()
    return agg


def run_units(prop, unit_iter, jobs, budget_s, chunk=40, wall=600):
    """Run units from *unit_iter* on *jobs* processes until exhausted or budget_s elapsed."""
    total = Agg()
    t0 = time.time()
    ctx = multiprocessing.get_context("fork")
    exhausted = False
    with ProcessPoolExecutor(max_workers=jobs, mp_context=ctx) as ex:
        pending = set()

        def submit():
            nonlocal exhausted
            units = []
            for u in unit_iter:
                units.append(u)
                if len(units) >= chunk:
                    break
            else:
                exhausted = True
            if units:
                pending.add(ex.submit(_work, (prop, units, wall)))

        while not exhausted and len(pending) < jobs * 2:
            submit()
        while pending:
            done = next(as_completed(pending))
            pending.discard(done)
            try:
                total.merge(done.result())
            except Exception as e:
                total.errors.append(("worker", f"{type(e).__name__}: {e}"))
            if total.errors or len(total.violations) >= 20 or any(v.get("oracle") == "loop_stalled" for v in total.violations):
                for p in pending:
                    p.cancel()
                break
            if not exhausted and (budget_s is None or time.time() - t0 < budget_s):
                submit()
    return total, time.time() - t0


from .util import load_known, known_entry  # noqa: E402


# ----------------------------------------------------------------------------- main
def write_replay(prop, seed, n, payload):
    os.makedirs(REPLAYS, exist_ok=True)
    path = os.path.join(REPLAYS, f"{prop}-{seed}-{n}.json")
    with open(path, "w") as f:
        json.dump(payload, f, indent=1, sort_keys=True)
    return path


def do_replay(path, quiet=False):
    with open(path) as f:
        payload = json.load(f)
    if payload.get("python_flags") == ["-O"] and not sys.flags.optimize:
        # found by the slice that runs under `python -O` (asserts compiled away): replay it the same way
        return subprocess.run([sys.executable, "-O", "-m", "tpsim.check", "--replay", path], timeout=900).returncode
    prop = payload["property"]
    eng = get_engine(prop)
    res = eng.replay(prop, payload)
    if not quiet:
        print(f"replay {path}: property={prop} expected oracle={payload.get('oracle')}")
        for v in res["violations"]:
            print(f"  {v['prop']} {v['oracle']}: {v['msg']}")
        print(f"  digest={res['digest']} (recorded {payload.get('digest')})")
    same = any(v["prop"] == prop and v["oracle"] == payload.get("oracle") for v in res["violations"])
    if same and payload.get("digest") and res["digest"] != payload["digest"]:
        print("  NOTE: same violation, different event digest")
    if same:
        print(f"VIOLATION property={prop} replay={path}")
        return 1
    print("  not reproduced")
    return 0


def main(argv=None):
    ap = argparse.ArgumentParser()
    ap.add_argument("prop", nargs="?")
    ap.add_argument("--tier", default=os.environ.get("VERIF_TIER", "quick"))
    ap.add_argument("--seed", type=int, default=int(os.environ.get("VERIF_SEED", "0") or 0))
    ap.add_argument("--replay")
    ap.add_argument("--jobs", type=int, default=int(os.environ.get("VERIF_JOBS", "0") or 0))
    ap.add_argument("--budget", type=float, default=None)
    ap.add_argument("--no-evidence", action="store_true")
    ap.add_argument("--opt-slice", action="store_true", help="(internal) every 9th unit, run under python -O")
    ap.add_argument("--no-opt-slice", action="store_true", help="skip the additional slice under python -O")
    a = ap.parse_args(argv)
    import warnings
    warnings.filterwarnings("ignore", category=RuntimeWarning, message="coroutine .* was never awaited")
    assert_library_location()
    if a.replay:
        return do_replay(a.replay)
    prop = a.prop
    tier = a.tier if a.tier in ("quick", "thorough") else "quick"
    jobs = a.jobs or min(16, os.cpu_count() or 4)
    eng = get_engine(prop)
    budget = a.budget
    if budget is None:
        budget = float(os.environ.get("VERIF_BUDGET_S", "0") or 0) or (eng.BUDGET[tier])
    print(f"check {prop} tier={tier} seed={a.seed} jobs={jobs} budget={budget}s src={repo_src()}")
    t0 = time.time()
    unit_iter = eng.units(prop, tier, a.seed)
    if a.opt_slice:
        unit_iter = itertools.islice(unit_iter, 3, None, 9)
    total, wall = run_units(prop, unit_iter, jobs, budget, chunk=eng.CHUNK.get(tier, 40))
    if total.errors:
        for u, tb in total.errors[:3]:
            print(f"HARNESS-ERROR: unit {u}\n{tb}")
        return 2
    known = load_known()
    status = 0
    out_lines = []
    # ---- classify violations
    viols = sorted(total.violations, key=lambda v: v["order"])
    real = []
    known_hit = {}
    for v in viols:
        e = known_entry(prop, v.get("signature"), v["oracle"])
        if e is not None:
            known_hit.setdefault(v["signature"], (e, v))
            continue
        real.append(v)
    for (sig, oracle), v in sorted(total.known.items()):
        e = known_entry(prop, sig, oracle)
        known_hit.setdefault(sig, (e, v))
    for sig, (entry, v) in sorted(known_hit.items()):
        out_lines.append(f"KNOWN-FINDING: property={prop} {entry['id']} [{sig}] {entry['what']}")
    replay_paths = []
    if real:
        status = 1
        seen = set()
        n = 0
        for v in real:
            key = (v["oracle"], v.get("signature"))
            if key in seen:
                continue
            seen.add(key)
            if n >= 3:
                break
            payload = eng.minimise(prop, v)
            if sys.flags.optimize:
                payload["python_flags"] = ["-O"]
            path = write_replay(prop, str(a.seed) + ("-O" if sys.flags.optimize else ""), n, payload)
            n += 1
            # confirm in a fresh interpreter
            env = dict(os.environ)
            r = subprocess.run([sys.executable] + (["-O"] if sys.flags.optimize else []) + ["-m", "tpsim.check", "--replay", path], env=env,
                               capture_output=True, text=True, timeout=300)
            confirmed = r.returncode == 1
            out_lines.append(f"violation {v['prop']}/{v['oracle']}: {v['msg']}"
                             + ("" if confirmed else "  [replay in fresh process did NOT reproduce]"))
            out_lines.append(f"VIOLATION property={prop} replay={path}")
            replay_paths.append(path)
    opt_slice = None
    if status == 0 and not a.opt_slice and not a.no_opt_slice and not sys.flags.optimize:
        # process-level configuration the schedule search cannot vary from inside: the same units, every 9th of them,
        # once more in an interpreter started with -O (assert statements - and anything done inside them - compiled away)
        cmd = [sys.executable, "-O", "-m", "tpsim.check", prop, "--tier", tier, "--seed", str(a.seed), "--opt-slice", "--no-evidence",
               "--jobs", str(jobs), "--budget", str(max(5.0, budget / 5.0))]
        r = subprocess.run(cmd, capture_output=True, text=True, timeout=7200)
        m = re.search(r"evaluations=(\d+)", r.stdout)
        opt_slice = {"python_flags": ["-O"], "evaluations": int(m.group(1)) if m else 0, "exit": r.returncode}
        if r.returncode != 0:
            status = r.returncode if r.returncode in (1, 2) else 2
            for ln in r.stdout.split("\n"):
                if ln.startswith(("violation ", "VIOLATION ", "HARNESS-ERROR")):
                    out_lines.append(ln + ("   [under python -O]" if ln.startswith("violation ") else ""))
            if r.returncode not in (1, 2) or (r.returncode == 2):
                out_lines.append("HARNESS-ERROR: the python -O slice failed:\n" + (r.stdout + r.stderr)[-600:])
    wall = time.time() - t0
    ev = eng.evidence(prop, tier, a.seed, total, wall, known_hit, real)
    ev["violations"] = len(real)
    if opt_slice is not None:
        ev["coverage"]["optimized_interpreter_slice"] = opt_slice
    if not a.no_evidence:
        os.makedirs(EVIDENCE, exist_ok=True)
        with open(os.path.join(EVIDENCE, f"{prop}.json"), "w") as f:
            json.dump(ev, f, indent=1, sort_keys=True, default=str)
    cov = ev["coverage"]
    print(f"  evaluations={cov['evaluations']} distinct_nontrivial={cov['distinct_nontrivial']} "
          f"wall={wall:.1f}s runs/h={cov.get('runs_per_hour')}")
    for line in out_lines:
        print(line)
    print("RESULT", "PASS" if status == 0 else "FAIL")
    return status


if __name__ == "__main__":
    sys.exit(main())
