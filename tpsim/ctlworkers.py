"""Coroutine functions reachable through dotted paths (for control-server commands).
They report to, and are gated by, the control simulation that is currently running."""
import asyncio

SIM = None


async def work(*args, **kwargs):
    sim = SIM
    if sim is None:
        return None
    return await sim.worker_body("work", args, kwargs)


async def job(*args, **kwargs):
    sim = SIM
    if sim is None:
        return None
    return await sim.worker_body("job", args, kwargs)


def on_end(task_id):
    if SIM is not None:
        SIM.cb_record("end", task_id)


async def on_cancel(task_id):
    if SIM is not None:
        SIM.cb_record("cancel", task_id)


def not_a_coroutine_function(*args, **kwargs):
    return None


some_value = 42
