"""Coroutine functions reachable through dotted paths (for control-server commands).
They report to, and are gated by, the control simulation that is currently running."""
import asyncio

SIM = None


async def work(*args, **kwargs):
    sim = SIM
    if sim is None:
        return None
    return await sim.worker_body("work", args, kwargs)


async def job(*args, **kwargs):
    sim = SIM
    if sim is None:
        return None
    return await sim.worker_body("job", args, kwargs)


async def _hidden(*args, **kwargs):
    """A coroutine function with a leading underscore (like anything under `__main__`): a dotted path like any other."""
    sim = SIM
    if sim is None:
        return None
    return await sim.worker_body("_hidden", args, kwargs)


async def mutator(*args, **kwargs):
    """Records what it received, then empties every list/dict argument (a worker may do that)."""
    sim = SIM
    if sim is None:
        return None
    try:
        return await sim.worker_body("mutator", args, kwargs)
    finally:
        for a in list(args) + list(kwargs.values()):
            if isinstance(a, list):
                a.clear()
            elif isinstance(a, dict):
                a.clear()


async def stopper(*args, **kwargs):
    """Calls pool.stop(1) in its first step (re-entrant call from a worker), then behaves like work()."""
    sim = SIM
    if sim is None:
        return None
    try:
        sim.pool.stop(1)
    except Exception:
        pass
    return await sim.worker_body("stopper", args, kwargs)


from .ctlpkg import nightly  # noqa: E402,F401  (the function, re-exported by the package; see tpsim/ctlpkg/__init__.py)

alias = work        # rebound between `work` and `job` by the simulation's "rebind" step


def on_end(task_id):
    if SIM is not None:
        SIM.cb_record("end", task_id)


async def on_cancel(task_id):
    if SIM is not None:
        SIM.cb_record("cancel", task_id)


def not_a_coroutine_function(*args, **kwargs):
    return None


some_value = 42
