"""Pool simulation: executes one *run* (configuration + explicit step list) of the real
asyncio_taskpool pool classes on a SimLoop, with harness-owned user code (workers, callbacks,
argument iterators, coroutine factories), a ledger built only from observations of that user
code / the task-factory seam / the public API, and monitors tagged by property.
"""
from __future__ import annotations

import asyncio
import asyncio.coroutines
import collections.abc
import gc
import functools
import hashlib
import inspect
import logging
import re
import warnings
from asyncio import CancelledError
from collections import Counter

from .loop import SimLoop, running

INF = None  # pool size "unbounded" in configs

CANCEL_OPS = ("cancel", "cancel_group", "cancel_all", "stop", "stop_all")
FUNC_NAMES = ("work", "job", "fetch_it")


class WorkerError(Exception):
    pass


class CbError(Exception):
    pass


class FactoryError(Exception):
    pass


class IterError(Exception):
    """Raised by a harness-owned argument iterable when it is advanced (unusual but legal user code)."""


_FACTORY_EXC = (FactoryError, TypeError, ValueError, KeyError, AttributeError)


class _CbOwner:
    """An object whose bound methods are handed to the pool as callbacks; nothing else refers to it."""

    def __init__(self, fn):
        self._fn = fn

    def on_task(self, task_id):
        return self._fn(task_id)

    async def on_task_async(self, task_id):
        return await self._fn(task_id)


class _ReIterable:
    """The argument iterable as a re-iterable container (every iter() starts a fresh pass) that also has a length."""

    def __init__(self, sim, req):
        self._sim, self._req = sim, req

    def __iter__(self):
        self._sim.stats["probe:container_iterable_iter_calls"] += 1
        if self._sim.cur_spawn is self._req:
            self._req.iter_in_request += 1       # iter() called synchronously inside the spawn call (matters if it is rejected)
        return self._sim._arg_iter(self._req)

    def __len__(self):
        n = len(self._req.elems)
        if self._req.spec.get("itk") == 2:
            return max(1, n // 2)        # len() counts something else (pages, batches): only iteration says what the elements are
        return n


class _CbCallable:
    """A callback that is an instance with __call__ (not a function, no __name__)."""
    __slots__ = ("_fn",)

    def __init__(self, fn):
        self._fn = fn

    def __call__(self, task_id):
        return self._fn(task_id)


class _CbMarked:
    """An instance with a plain __call__ that hands back a coroutine, tagged as a coroutine function the way asyncio's
    own helpers (and unittest.mock.AsyncMock) tag objects: `asyncio.iscoroutinefunction()` says yes,
    `inspect.iscoroutinefunction()` says no.  The pool accepts it as an async callback and must await it."""
    __slots__ = ("_fn",)
    _is_coroutine = asyncio.coroutines._is_coroutine

    def __init__(self, fn):
        self._fn = fn

    def __call__(self, task_id):
        return self._fn(task_id)


class _AbcCoroutine(collections.abc.Coroutine):
    """What a marked coroutine function may return instead of a native coroutine object: any collections.abc.Coroutine
    (compiled coroutines, instrumentation wrappers).  Delegates everything to the real worker coroutine."""
    __slots__ = ("_c",)

    def __init__(self, c):
        self._c = c

    def send(self, value):
        return self._c.send(value)

    def throw(self, *exc):
        return self._c.throw(*exc)

    def close(self):
        return self._c.close()

    def __await__(self):
        return self._c.__await__()


class _CbUnhashable:
    """A callback object that defines __eq__ and therefore has no __hash__ (like an ordinary eq-dataclass with
    __call__): callable, but it cannot be a dict key or an lru_cache argument."""
    __slots__ = ("_fn",)
    __hash__ = None

    def __init__(self, fn):
        self._fn = fn

    def __eq__(self, other):
        return self is other

    def __call__(self, task_id):
        return self._fn(task_id)


def _cb_with_prefix(fn, _bound, task_id):
    return fn(task_id)


async def _acb_with_prefix(fn, _bound, task_id):
    return await fn(task_id)


class HarnessError(Exception):
    """A bug in the harness itself (never reported as a violation)."""


class _NullHandler(logging.Handler):
    def emit(self, record):
        pass


def silence_library_logging():
    lg = logging.getLogger("asyncio_taskpool")
    if not any(isinstance(h, _NullHandler) for h in lg.handlers):
        lg.addHandler(_NullHandler())
    lg.propagate = False
    lg.setLevel(logging.CRITICAL + 10)
    alog = logging.getLogger("asyncio")
    if not any(isinstance(h, _NullHandler) for h in alog.handlers):
        alog.addHandler(_NullHandler())
    alog.propagate = False


# ----------------------------------------------------------------------------- records
class InvRec:
    __slots__ = ("req", "idx", "args", "kwargs", "coro", "script", "state", "trec", "gate_no",
                 "cancel_modes", "seq_call", "probe", "cur_mode")

    def __init__(self, req, idx, args, kwargs, script, seq):
        self.req = req
        self.idx = idx
        self.args = args
        self.kwargs = kwargs
        self.coro = None
        self.script = script
        self.state = "made"      # made -> running -> finished ; or closed (never ran)
        self.trec = None
        self.gate_no = 0
        self.cancel_modes = list(script.get("oc", ()))
        self.seq_call = seq
        self.probe = False


class TaskRec:
    __slots__ = ("pc", "task", "_name", "_tid", "n", "req", "inv", "state", "exit_how",
                 "pend_cancel", "pend_prop", "cancel_obs", "ccb_calls", "ecb_calls", "ccb_open",
                 "ecb_open", "forget", "done_flag", "seq_created", "seq_exit", "ecb_id_ok",
                 "ccb_before_ecb", "k", "early")

    def __init__(self, pc, task, name, n, req, seq):
        self.pc = pc
        self.task = task
        self._name = name
        self._tid = None
        self.n = n            # creation index within the pool
        self.k = 0            # creation index within the request
        self.req = req
        self.inv = None
        self.state = "U"
        self.exit_how = None
        self.pend_cancel = 0
        self.pend_prop = None
        self.cancel_obs = 0
        self.ccb_calls = 0
        self.ecb_calls = 0
        self.ccb_open = False
        self.ecb_open = False
        self.forget = 0
        self.done_flag = False
        self.seq_created = seq
        self.seq_exit = None
        self.early = False

    def inv_probe(self):
        return self.req.probe or (self.inv is not None and self.inv.probe)

    @property
    def unstepped(self):
        """Created, and its task has not taken a single step yet - the trigger of the recorded finding F-EARLY.  (On the
        unchanged code a task whose worker has not started has never stepped: the first step runs the worker's first
        statement.  A change that lets a task step without starting its worker is a different situation.)"""
        return self.state == "U" and getattr(self.task, "_sim_steps", 0) == 0

    @property
    def name(self):
        if self._name is None:
            self._name = self.task.get_name()
        return self._name

    @property
    def tid(self):
        if self._tid is None:
            m = _TASKNAME_RE.search(self.name)
            self._tid = int(m.group(1)) if m else self.n
        return self._tid

    @tid.setter
    def tid(self, v):
        self._tid = v


class ReqRec:
    __slots__ = ("label", "pc", "kind", "spec", "gname", "func", "spawners", "calls", "pulls",
                 "tasks", "skipped", "cancelled_seq", "accepted_seq", "elems", "num", "nc",
                 "ecb_kind", "ccb_kind", "payload_args", "payload_kwargs", "exhausted",
                 "lock_hit", "probe", "last_el", "called_els", "last_started_el", "iter_failed", "iter_in_request")

    def __init__(self, label, pc, kind, spec):
        self.last_el = -1
        self.last_started_el = -1
        self.iter_failed = False
        self.called_els = []
        self.label = label
        self.pc = pc
        self.kind = kind
        self.spec = spec
        self.gname = None
        self.func = None
        self.spawners = []
        self.calls = []
        self.pulls = 0
        self.tasks = []
        self.skipped = 0
        self.cancelled_seq = None
        self.accepted_seq = None
        self.elems = None
        self.num = None
        self.nc = None
        self.ecb_kind = None
        self.ccb_kind = None
        self.payload_args = ()
        self.payload_kwargs = {}
        self.exhausted = False
        self.lock_hit = False
        self.probe = False
        self.iter_in_request = 0

    # ---- derived
    def total(self):
        return self.num if self.elems is None else len(self.elems)

    def spawner_done(self):
        return all(t.done() for t in self.spawners)

    def work_left(self):
        """True if an uncancelled request still has invocations to make."""
        if self.cancelled_seq is not None:
            return False
        return len(self.tasks) + self.skipped < self.total()


class PoolCtx:
    def __init__(self, idx, pool, cls, size, cfg):
        self.idx = idx
        self.pool = pool
        self.cls = cls
        self.size = size           # None == unbounded
        self.cfg = cfg
        self.reqs = []
        self.tasks = []
        self.locked = False
        self.closed = False
        self.n_run = 0
        self.n_C = 0
        self.n_E0 = 0              # ended, certainly known
        self.n_E1 = 0              # ended, possibly forgotten
        self.live = 0              # workers begun and not finished
        self.cb_open = 0           # tasks currently inside a (gated) callback
        self.pending_done = []     # TaskRec in state E whose task is not done yet
        self.active_flush = 0
        self.act_drivers = []
        self.gathers = []          # driver records
        self.waiters = []          # until_closed driver records
        self.start_calls = 0
        self.size_changed = False
        self.simple_func = None
        self.unnamed = []
        self.limit = size
        self.hi = 0
        self.call_failures = 0
        self.set_while_busy = False
        self.resized_idle = False
        self.last_start_idx = None
        self.rejected_starts = 0
        self.last_set_seq = None
        self.group_cancels = 0       # cancel_group/cancel_all executed on this pool (C07: siblings keep progressing)
        self.progress_off = False    # pool_size was assigned while spawners were waiting (F-SIZE region): only limits are checked


class Driver:
    __slots__ = ("kind", "pc", "task", "rex", "state", "exc", "snapshot", "seq_start", "seq_end",
                 "started", "label", "sure", "overlapped")

    def __init__(self, kind, pc, rex=False, label=None):
        self.kind = kind
        self.pc = pc
        self.task = None
        self.rex = rex
        self.state = "new"     # new -> active -> returned | raised
        self.exc = None
        self.snapshot = None
        self.seq_start = None
        self.seq_end = None
        self.started = False
        self.label = label
        self.sure = ()           # tasks the pool certainly still knows when this call starts
        self.overlapped = False  # another flush()/gather_and_close() of the same pool was active at some point


_TASKNAME_RE = re.compile(r"_Task-(-?\d+)$")
_GEN_NAME_RE = re.compile(r"^(apply|map|starmap|doublestarmap)-(.+)-group-(\d+)$")
_START_NAME_RE = re.compile(r"^start-group-(\d+)$")


_FALSY = (0, None, "", (), False)


class _CountingArgs:
    """One-shot iterator used as apply()'s ``args``; records whether it was advanced (C09)."""

    def __init__(self, items):
        self._it = iter(items)
        self.pulled = 0

    def __iter__(self):
        return self

    def __next__(self):
        self.pulled += 1
        return next(self._it)


class _OneShot:
    """A one-shot iterator element for starmap (can be unpacked exactly once)."""

    def __init__(self, items):
        self.items = tuple(items)
        self._it = iter(self.items)

    def __iter__(self):
        return self._it

    def __len__(self):
        return len(self.items)


class _OldSeq:
    """A starmap element that `func(*x)` accepts but that is no collections.abc.Iterable: the old sequence protocol
    (__getitem__ from 0 until IndexError, __len__), nothing else."""

    def __init__(self, items):
        self.items = tuple(items)

    def __getitem__(self, i):
        return self.items[i]

    def __len__(self):
        return len(self.items)


class _KeysObj:
    """A doublestarmap element that `func(**x)` accepts but that is no collections.abc.Mapping: keys() and
    __getitem__, nothing else (a database row, a namespace wrapper)."""

    def __init__(self, d):
        self.d = dict(d)

    def keys(self):
        return list(self.d)

    def __getitem__(self, k):
        return self.d[k]


class _AsyncCallable:
    """Its instances (not the class itself) are awaitable-returning callables; neither is a coroutine function."""
    __name__ = "async_callable"

    async def __call__(self, *a, **k):
        return None


def _not_coroutine_function(k):
    """Callables that are NOT coroutine functions (C09)."""
    k = k % 8
    if k == 7:
        return functools.partial(len, "xy")   # a partial of a plain function: not a coroutine function, and no __name__
    if k == 6:
        async def real2(*a, **k):
            return None
        return (real2, 1)                # a (function, argument) pair: whoever formats an error message with it must cope
    if k == 5:
        async def real(*a, **k):
            return None

        @functools.wraps(real)
        def fire_and_forget(*a, **k):       # a plain function (returns a Task) that merely WRAPS a coroutine function
            return asyncio.ensure_future(real(*a, **k))
        return fire_and_forget
    if k == 0:
        f = (lambda *a, **k: None)
        f.__name__ = "not_a_coroutine_function"
        return f
    if k == 1:
        return _AsyncCallable            # a class whose __call__ is async: calling it makes an instance, not a coroutine
    if k == 2:
        return _AsyncCallable()          # an instance with async __call__
    if k == 3:
        def gen_function(*a, **k):
            yield 1
        return gen_function
    return len


class Payload:
    """Opaque argument object compared by identity.  Like many real-world objects (arrays, ORM rows, mocks) it has
    no truth value, no equality, no hash, no length: the pool is only expected to pass it on."""
    __slots__ = ("tag",)
    __hash__ = None

    def __init__(self, tag):
        self.tag = tag

    def __repr__(self):
        return f"<P {self.tag}>"

    def _refuse(self, *a, **k):
        raise PayloadTouched(f"the pool inspected argument object {self!r} instead of just passing it on")

    __bool__ = __eq__ = __ne__ = __len__ = __iter__ = __lt__ = __contains__ = _refuse


class PayloadTouched(Exception):
    pass


# ============================================================================= Sim
class Sim:
    MAX_VIOL = 12

    def __init__(self, run, props=None):
        silence_library_logging()
        if run["config"].get("loglevel") == "DEBUG":
            # configuration knob: the library's logger enabled at DEBUG (records go to a null handler)
            logging.getLogger("asyncio_taskpool").setLevel(logging.DEBUG)
        self.run = run
        self.cfg = run["config"]
        self._orphans = []
        self.clean = run.get("clean", True)
        # which recorded findings' triggers the step executor steers around
        self.steer = set(run.get("steer", ("F-EARLY", "F-LOCK") if self.clean else ()))
        self.props = props          # None == record everything
        self.loop = SimLoop(hash_mask=self.cfg.get("hmask", 0))
        self.loop.set_debug(False)
        self.loop.on_task_created = self._on_task_created
        self.seq = 0
        self.events = []
        self.viol = []
        self.stats = Counter()
        self.pools = []
        self.reqs = {}
        self.spawner_req = {}
        self.trec_of = {}
        self.gates = {}            # key -> future, insertion ordered
        self.armed = []
        self.cur_spawn = None
        self.drivers = []
        self.remaining = 0
        self.last_cancel_prop = "C06"
        self.quiescing = False
        self.torn = False
        self.injected = []         # exception instances the harness injected
        self.inj_by_pool = Counter()
        self.cb_cancelled = Counter()
        self.probe_mode = False
        self.states = set()        # abstract states reached
        self.harness_errors = []
        self.hit_cap = False
        self.next_label = 1000
        self._ctx = None
        self._creating_driver = False
        self._setup()

    # ------------------------------------------------------------------ basics
    def tick(self):
        self.seq += 1
        return self.seq

    def ev(self, *a):
        self.events.append(a)

    def violate_progress(self, pc, prop, oracle, msg):
        """A request that does not make the progress C04/C05 promise; if a failure was injected in this
        pool, the same observation also contradicts C12 (a failure harms only the failing task); if a group
        was cancelled in this pool, it contradicts C07 (pending requests of other groups keep progressing -
        a cancelled request is never expected to progress, so whatever is reported here is a sibling)."""
        self.violate(prop, oracle, msg)
        if self.inj_by_pool[pc.idx] or pc.call_failures:
            self.violate("C12", "sibling_progress:" + oracle, msg)
        if pc.group_cancels and not any(t.early for t in pc.tasks) and not any(r.lock_hit for r in pc.reqs):
            # (a task cancelled before its first step leaks its slot - recorded finding F-EARLY, reported under
            #  C02/C05 - and a lock that arrives while a request is outstanding ends that request - recorded finding
            #  F-LOCK, reported under C04/C08; what they do to requests is not charged to the group cancellation)
            self.violate("C07", "sibling_progress:" + oracle, msg)

    def violate(self, prop, oracle, msg, **kw):
        if self.props is not None and prop not in self.props:
            self.stats["otherprop:" + prop] += 1
            return
        if len(self.viol) < self.MAX_VIOL:
            d = {"prop": prop, "oracle": oracle, "msg": msg, "seq": self.seq,
                 "handle": self.loop.handles_run}
            d.update(kw)
            self.viol.append(d)
        self.ev("VIOL", prop, oracle)

    def digest(self):
        h = hashlib.sha1()
        h.update(repr(self.events).encode())
        return h.hexdigest()[:16]

    # ------------------------------------------------------------------ setup
    def _setup(self):
        from asyncio_taskpool import pool as pmod
        from .hermetic import reset_library_state
        reset_library_state()
        self.pmod = pmod
        from asyncio_taskpool import exceptions as X
        self.X = X
        try:
            pmod.BaseTaskPool._pools.clear()   # process-global registry: hygiene between runs
        except Exception:  # pragma: no cover
            pass
        with running(self.loop):
            for i, pcfg in enumerate(self.cfg["pools"]):
                self._make_pool(i, pcfg)
        names = [pc.pool_str for pc in self.pools if not pc.cfg.get("name")]   # unnamed pools ('' is no name) get distinct names
        if len(set(names)) != len(names):
            self.violate("C11", "pool_names_distinct", f"pool names collide: {names}")
        for pc in self.pools:
            pcfg = pc.cfg
            exp_cls = "LimitedPool" if pcfg.get("sub") else ("SimpleTaskPool" if pc.cls == "S" else "TaskPool")
            if pcfg.get("name") and pc.pool_str != f"{exp_cls}-{pcfg['name']}":
                self.violate("C11", "pool_name", f"{pc.pool_str!r} for name {pcfg['name']!r}")

    def _make_pool(self, i, pcfg):
        pmod = self.pmod
        size = pcfg.get("size")
        kw = {}
        if size is not None:
            kw["pool_size"] = size
        if pcfg.get("name") is not None:
            kw["name"] = pcfg["name"]
        T, S = pmod.TaskPool, pmod.SimpleTaskPool
        if pcfg.get("sub"):
            # a class factory: every such pool gets a class of its own, and they all carry the same __name__
            T = type("LimitedPool", (pmod.TaskPool,), {})
            S = type("LimitedPool", (pmod.SimpleTaskPool,), {})
            self.stats["probe:pool_of_factory_made_class"] += 1
        if pcfg["cls"] == "S":
            pc = PoolCtx(i, None, "S", size, pcfg)
            func = self._make_func(pc, pcfg.get("fk", "sync"),
                                   FUNC_NAMES[pcfg.get("fn", 0) % len(FUNC_NAMES)])
            pc.simple_func = func
            pc.payload_args, pc.payload_kwargs = self._make_payload(("S", i), pcfg.get("ash", 0))
            pc.ecb_kind = pcfg.get("ecb")
            pc.ccb_kind = pcfg.get("ccb")
            pool = S(
                func, args=pc.payload_args, kwargs=pc.payload_kwargs,
                end_callback=self._make_cb(pc, "ecb", pc.ecb_kind),
                cancel_callback=self._make_cb(pc, "ccb", pc.ccb_kind), **kw)
            pc.pool = pool
        else:
            pool = T(**kw)
            pc = PoolCtx(i, pool, "T", size, pcfg)
        pc.pool_str = str(pool)
        pc.live_names = {}
        self.pools.append(pc)

    def _op_new_pool(self, step, ctx):
        """Create another pool in the middle of the run (C11: unnamed pools get distinct names)."""
        if len(self.pools) >= (16 if self.cfg.get("many_pools") else 5):
            return False
        pcfg = dict(step["cfg"])
        i = len(self.pools)
        self._make_pool(i, pcfg)
        pc = self.pools[i]
        live = [p.pool_str for p in self.pools[:i] if not p.closed]
        if pc.pool_str in live and not pcfg.get("name"):
            self.violate("C11", "pool_names_distinct", f"new pool is named {pc.pool_str!r} like a pool that is still open")
        exp_cls = "LimitedPool" if pcfg.get("sub") else ("SimpleTaskPool" if pc.cls == "S" else "TaskPool")
        if pcfg.get("name") and pc.pool_str != f"{exp_cls}-{pcfg['name']}":
            self.violate("C11", "pool_name", f"{pc.pool_str!r} for name {pcfg['name']!r}")
        if any(p.closed for p in self.pools[:i]):
            self.stats["probe:pool_created_after_a_close"] += 1
        return True

    def _op_bad_pool(self, step, ctx):
        """C09: a negative pool size is rejected by the constructor and by the setter; nothing else changes."""
        X = self.X
        snaps = [self._snapshot(pc) for pc in self.pools]
        v = step.get("v", -1)
        self.stats["fault:rejected_request"] += 1
        for cls in (self.pmod.TaskPool, self.pmod.SimpleTaskPool):
            try:
                if cls is self.pmod.SimpleTaskPool:
                    cls(self._make_func(self.pools[0], "sync", "work"), pool_size=v)
                else:
                    cls(pool_size=v)
            except ValueError:
                pass
            except Exception as e:
                self.violate("C09", "negative_size_error", f"{cls.__name__}(pool_size={v}) raised {type(e).__name__}")
            else:
                self.violate("C09", "negative_size_accepted", f"{cls.__name__}(pool_size={v}) was accepted")
        pc = self._pc(step)
        if pc is not None and not pc.size_changed:
            before = pc.pool.pool_size
            try:
                pc.pool.pool_size = v
            except ValueError:
                pass
            except Exception as e:
                self.violate("C09", "negative_size_error", f"pool_size={v} raised {type(e).__name__}")
            else:
                self.violate("C09", "negative_size_accepted", f"pool_size={v} was accepted by the setter")
                pc.size_changed = True
            if pc.pool.pool_size != before:
                self.violate("C09", "negative_size_changed", f"rejected pool_size={v} changed pool_size from {before} to {pc.pool.pool_size}")
        if [self._snapshot(pc) for pc in self.pools] != snaps:
            self.violate("C09", "trace_left", f"rejected negative pool size changed observables of existing pools")
        return True

    def _make_payload(self, tag, shape):
        # shape 0: no args; 1: positional; 2: keyword; 3: both
        args = ()
        kwargs = {}
        if shape in (1, 3):
            args = (Payload((tag, "a0")), Payload((tag, "a1")))
        if shape in (2, 3):
            kwargs = {"kw_x": Payload((tag, "k0"))}
        if shape == 5:
            # keyword names that happen to coincide with parameter names the library uses internally
            kwargs = {k: Payload((tag, k)) for k in ("group_name", "func", "num", "end_callback")}
        if shape == 6:
            args = (Payload((tag, "a0")),)
            kwargs = {k: Payload((tag, k)) for k in ("self", "args", "kwargs", "cancel_callback", "group_size", "coroutine")}
        return args, kwargs

    # ------------------------------------------------------------------ user code: functions
    def _make_func(self, owner, fk, fname):
        sim = self
        if fk == "plain":
            async def plain(*args, **kwargs):
                inv = sim._on_call(owner, args, kwargs, True)
                return await sim._body(inv)
            plain.__name__ = fname
            plain.__qualname__ = fname
            return plain
        if fk == "wrap":
            # a coroutine function behind a functools.wraps decorator that injects a leading argument: introspection
            # (inspect.signature follows __wrapped__) and call behaviour disagree - only the call behaviour counts
            async def inner(session, *args, **kwargs):
                inv = sim._on_call(owner, args, kwargs, True)
                return await sim._body(inv)
            inner.__name__ = fname
            inner.__qualname__ = fname

            @functools.wraps(inner)
            async def with_session(*args, **kwargs):
                return await inner(object(), *args, **kwargs)
            self.stats["probe:wrapped_worker"] += 1
            return with_session
        if fk == "pmeth":
            # an ordinary coroutine function again, this time as the bound method of an object nothing else refers to
            async def meth(_self, *args, **kwargs):
                inv = sim._on_call(owner, args, kwargs, True)
                return await sim._body(inv)
            meth.__name__ = fname
            meth.__qualname__ = "Owner." + fname
            self.stats["probe:bound_method_worker"] += 1
            return getattr(type("Owner", (), {fname: meth})(), fname)

        if fk == "part":
            # a functools.partial of a (marked) coroutine function: passes the coroutine-function check, has no __name__
            def bound_factory(_bound, *args, **kwargs):
                inv = sim._on_call(owner, args, kwargs, False)
                coro = sim._body(inv)
                inv.coro = coro
                return coro
            bound_factory.__name__ = fname
            bound_factory.__qualname__ = fname
            inspect.markcoroutinefunction(bound_factory)
            self.stats["probe:partial_worker_without_name"] += 1
            return functools.partial(bound_factory, "bound")

        def factory(*args, **kwargs):
            inv = sim._on_call(owner, args, kwargs, False)
            coro = sim._body(inv)
            if fk == "abc":
                # the marked function hands back a collections.abc.Coroutine that is not a native coroutine object
                sim.stats["probe:abc_coroutine_worker"] += 1
                coro = _AbcCoroutine(coro)
            inv.coro = coro
            return coro
        factory.__name__ = fname
        factory.__qualname__ = fname
        inspect.markcoroutinefunction(factory)
        return factory

    def _owner_req(self, owner, plain):
        if isinstance(owner, ReqRec):
            return owner
        ct = asyncio.current_task()
        if plain:
            tr = self.trec_of.get(ct)
            return tr.req if tr is not None else None
        req = self.spawner_req.get(ct)
        if req is None and self.cur_spawn is not None:
            req = self.cur_spawn
        return req

    def _script_for(self, req, idx):
        if self.probe_mode or req.probe:
            return {"g": 1}
        scs = req.spec.get("sc") or ()
        if not scs:
            scs = req.pc.cfg.get("sc") or ()
        if not scs:
            return {"g": 1}
        return scs[idx % len(scs)]

    def _on_call(self, owner, args, kwargs, plain):
        req = self._owner_req(owner, plain)
        self.tick()
        if req is None:
            # cannot attribute the call to any request: the pool called func from an unexpected place
            self.violate("C09", "unattributed_call", "func called outside any accepted request")
            req = ReqRec(-1, owner if isinstance(owner, PoolCtx) else self.pools[0], "apply", {})
            req.num = 0
        idx = len(req.calls)
        inv = InvRec(req, idx, args, kwargs, self._script_for(req, idx), self.seq)
        inv.probe = self.probe_mode or req.probe
        req.calls.append(inv)
        self.ev("call", req.label, idx)
        if self.cur_spawn is not None and not plain:
            self.violate("C09", "call_in_request", "func called synchronously inside the spawn call")
        if req.cancelled_seq is not None and not plain and not req.iter_failed:
            self.violate("C07", "call_after_cancel", f"func of cancelled request r{req.label} called")
            if req.kind in ("apply", "start"):
                # C04: "only cancelling the group stops the remainder" - and cancelling it does stop it
                self.violate("C04", "call_after_cancel", f"func of cancelled {req.kind} request r{req.label} called: cancelling the group did not stop the remainder")
        # ---- arguments
        if req.kind in ("apply", "start"):
            pa, pk = (req.payload_args, req.payload_kwargs)
            ok = len(args) == len(pa) and all(a is b for a, b in zip(args, pa)) \
                and set(kwargs) == set(pk) and all(kwargs[k] is pk[k] for k in pk)
            if not ok:
                self.violate("C04", "args", f"r{req.label} call {idx} got {args!r} {kwargs!r}")
            if not plain and idx >= req.num:
                self.violate("C04", "too_many_calls", f"r{req.label}: call {idx} of num={req.num}")
        elif not plain:
            el = req.pulls - 1
            if el < 0 or el >= len(req.elems):
                self.violate("C05", "call_without_pull", f"r{req.label} call {idx}")
            else:
                if el <= req.last_el:
                    self.violate("C05", "element_repeated", f"r{req.label} element {el} called again")
                req.last_el = el
                req.called_els.append(el)
                self._check_elem_args(req, el, args, kwargs)
        if not plain:
            self._op_point("fa", req)
            fails = req.spec.get("fail") or req.pc.cfg.get("fail") or ()
            if idx in fails and not inv.probe:
                inv.state = "failed"
                req.skipped += 1
                req.pc.call_failures += 1
                self.stats["fault:factory_raises"] += 1
                # the kind of exception user code raises is up to the user: vary it
                fx = (req.spec.get("fx") or req.pc.cfg.get("fx") or 0) + idx
                e = _FACTORY_EXC[fx % len(_FACTORY_EXC)](f"r{req.label}#{idx} (injected)")
                raise e
        return inv

    def _elem_value(self, req, i):
        return req.elems[i]

    def _check_elem_args(self, req, el, args, kwargs):
        x = req.elems[el]
        if req.kind == "map":
            ok = len(args) == 1 and args[0] is x and not kwargs
        elif req.kind == "starmap":
            xs = x.items if isinstance(x, (_OneShot, _OldSeq)) else x
            ok = (not kwargs) and len(args) == len(xs) and all(a is b for a, b in zip(args, xs))
        else:
            if isinstance(x, _KeysObj):
                x = x.d
            ok = (not args) and set(kwargs) == set(x) and all(kwargs[k] is x[k] for k in x)
        if not ok:
            self.violate("C05", "element_args", f"r{req.label} element {el}: got {args!r} {kwargs!r}")

    async def _body(self, inv):
        task = asyncio.current_task()
        trec = self._on_worker_start(inv, task)
        how = "raise"
        try:
            n = inv.script.get("g", 0)
            g = 0
            while g < n:
                inv.gate_no = g
                try:
                    await self._gate(("w", inv.req.label, inv.idx, g))
                except CancelledError:
                    if self.torn:
                        raise
                    mode = self._on_cancel_obs(inv, trec)
                    if mode == "s":
                        continue
                    if mode == "r":
                        how = "ret"
                        return ("swallowed", inv.req.label, inv.idx)
                    if mode == "x":
                        e = WorkerError(f"oc r{inv.req.label}#{inv.idx}")
                        self.injected.append(e)
                        self.inj_by_pool[inv.req.pc.idx] += 1
                        raise e
                    how = "cancel"
                    raise
                g += 1
            inv.gate_no = n
            self._op_point("we", inv)
            if inv.script.get("end") == "xl" and not inv.probe:
                # the worker uses the pool itself and does not handle the documented error it gets: cancel() of a task
                # that is inside its cancel callback (AlreadyCancelled), has ended (AlreadyEnded) or never existed
                # (InvalidTaskID).  That error is this task's failure - nobody cancelled it.
                pc = inv.req.pc
                tgt = next((t.tid for t in pc.tasks if t.state == "C" and t.tid is not None), None)
                if tgt is None:
                    tgt = next((t.tid for t in pc.tasks if t.state == "E" and t.forget == 0 and t.tid is not None), None)
                if tgt is None:
                    tgt = 987654321
                try:
                    pc.pool.cancel(tgt)
                except Exception as e:
                    self.injected.append(e)
                    self.inj_by_pool[pc.idx] += 1
                    self.stats["fault:worker_fails_with_library_exception:" + type(e).__name__] += 1
                    raise
            if inv.script.get("end") in ("x", "xg", "xm"):
                e = WorkerError(f"end r{inv.req.label}#{inv.idx}")
                if inv.script["end"] != "x":
                    # the failure of a supervising coroutine: an exception group that carries the CancelledError of one of
                    # ITS children (alone, or next to an ordinary error).  Nobody cancelled this task: it failed.
                    self.stats["fault:worker_raises_group_with_cancellation"] += 1
                    e = BaseExceptionGroup(f"children of r{inv.req.label}#{inv.idx}", [CancelledError()] + ([e] if inv.script["end"] == "xm" else []))
                self.injected.append(e)
                self.inj_by_pool[inv.req.pc.idx] += 1
                self.stats["fault:worker_raises"] += 1
                raise e
            how = "ret"
            if inv.script.get("end") == "rx":
                # unusual but legal: the coroutine RETURNS an exception object (nobody raises it)
                self.stats["fault:worker_returns_exception_object"] += 1
                return WorkerError(f"returned, never raised: r{inv.req.label}#{inv.idx}")
            return ("ok", inv.req.label, inv.idx)
        finally:
            if not self.torn:
                self._on_worker_exit(inv, trec, how)

    def _gate(self, key):
        fut = self.loop.create_future()
        self.gates.pop(key, None)
        self.gates[key] = fut
        return fut

    def pending_gates(self):
        dead = [k for k, f in self.gates.items() if f.done()]
        for k in dead:
            del self.gates[k]
        return list(self.gates)

    # ------------------------------------------------------------------ user code: callbacks
    def _make_cb(self, owner, which, kind):
        if kind is None:
            return None
        sim = self
        if kind[-1] == "f":
            # a plain callback that hands back an awaitable (fire-and-forget: `lambda i: asyncio.ensure_future(...)`): the
            # pool calls plain callbacks, it does not wait for what they return
            inner = self._make_cb(owner, which, kind[:-1])
            self.stats["probe:callback_returns_pending_future"] += 1

            def cbf(task_id):
                inner(task_id)
                fut = sim.loop.create_future()
                sim._orphans.append(fut)
                return fut
            return cbf
        if kind[-1] == "u":
            self.stats["probe:unhashable_callback"] += 1
            return _CbUnhashable(self._make_cb(owner, which, kind[:-1]))
        if kind[-1] == "d":
            # the parameter that receives the task id has a default value: the id is passed all the same
            inner = self._make_cb(owner, which, kind[:-1])
            self.stats["probe:callback_with_default_parameter"] += 1
            if kind[0] == "s":
                def cbd(task_id=-1):
                    return inner(task_id)
                return cbd

            async def acbd(task_id=None):
                return await inner(task_id)
            return acbd
        if kind[-1] == "k":
            self.stats["probe:marked_object_callback"] += 1
            return _CbMarked(self._make_cb(owner, which, kind[:-1]))
        if kind[-1] in "mop":
            # the same callback in another legal shape: a bound method of an object that only the pool (through the
            # method) refers to / an instance with __call__ / a functools.partial with a bound leading argument
            inner = self._make_cb(owner, which, kind[:-1])
            is_sync = kind[0] == "s"
            if kind[-1] == "m":
                self.stats["probe:bound_method_callback"] += 1
                o = _CbOwner(inner)
                return o.on_task if is_sync else o.on_task_async
            if kind[-1] == "o" and is_sync:
                self.stats["probe:callable_object_callback"] += 1
                return _CbCallable(inner)
            self.stats["probe:partial_callback"] += 1
            if is_sync:
                return functools.partial(_cb_with_prefix, inner, "bound")
            return functools.partial(_acb_with_prefix, inner, "bound")
        raising = kind.endswith("x")
        base = kind[0]

        def mk_exc(trec):
            e = CbError(f"{which} {trec.name}")
            sim.injected.append(e)
            sim.inj_by_pool[trec.pc.idx] += 1
            sim.stats["fault:callback_raises"] += 1
            return e

        if kind == "sT":
            # plain callback that would also accept zero arguments and whose body raises TypeError
            def cbt(*args):
                if sim.torn:
                    return
                if len(args) != 1:
                    sim.violate("C03", "callback_arguments", f"{which} callback called with arguments {args!r} (expected exactly the task id)")
                    sim.violate("C12", "callback_arguments", f"{which} callback whose body raised a TypeError was called again, with arguments {args!r}: "
                                "the exception of a user callback is the task's outcome, not a reason to call it differently")
                    return
                trec = sim._cb_enter(owner, which, args[0])
                try:
                    sim._op_point(which, trec)
                    if not trec.inv_probe():
                        e = TypeError(f"{which}() missing 1 required positional argument: 'task_id' (injected, {trec.name})")
                        sim.injected.append(e)
                        sim.inj_by_pool[trec.pc.idx] += 1
                        sim.stats["fault:callback_raises_typeerror"] += 1
                        raise e
                finally:
                    if not sim.torn:
                        sim._cb_exit(trec, which)
            return cbt
        if base == "s":
            def cb(task_id):
                if sim.torn:
                    return
                trec = sim._cb_enter(owner, which, task_id)
                try:
                    sim._op_point(which, trec)
                    if raising and not trec.inv_probe():
                        raise mk_exc(trec)
                finally:
                    if not sim.torn:
                        sim._cb_exit(trec, which)
            return cb

        async def acb(task_id):
            if sim.torn:
                return
            trec = sim._cb_enter(owner, which, task_id)
            try:
                sim._op_point(which, trec)
                if base == "g" and not trec.inv_probe():
                    sim.stats["fault:slow_callback"] += 1
                    fut = sim._gate(("c", which, trec.req.label, trec.k))
                    try:
                        await fut
                    except CancelledError:
                        if not fut.cancelled() and not sim.torn:
                            # nobody cancelled what the callback awaits: the cancellation was aimed at the task
                            sim.violate("C03", "callback_interrupted", f"{which} of {trec.name} was interrupted by a CancelledError: callbacks must run to completion")
                        raise
                    sim.ev("cb_post", which, trec.n)
                if raising and not trec.inv_probe():
                    raise mk_exc(trec)
            finally:
                if not sim.torn:
                    sim._cb_exit(trec, which)
        return acb

    # ------------------------------------------------------------------ ledger: observations
    def _on_task_created(self, task, coro, creator):
        if self._creating_driver:
            return
        if self.cur_spawn is not None:
            req = self.cur_spawn
            self.spawner_req[task] = req
            req.spawners.append(task)
            self.ev("spawner", req.label)
            return
        req = self.spawner_req.get(creator) if creator is not None else None
        if req is None:
            return     # a driver or some other helper task
        pc = req.pc
        self.tick()
        n = len(pc.tasks)
        trec = TaskRec(pc, task, None, n, req, self.seq)
        pc.unnamed.append(trec)   # asyncio.create_task applies the name after the factory seam
        trec.k = len(req.tasks)
        pc.tasks.append(trec)
        req.tasks.append(trec)
        self.trec_of[task] = trec
        for inv in reversed(req.calls):
            if inv.trec is None and inv.state == "made" and inv.coro is not None:
                inv.trec = trec
                trec.inv = inv
                break
        pc.n_run += 1
        self.ev("task", pc.idx, n, req.label)
        name = f"#{n} of {pc.pool_str}"
        if req.cancelled_seq is not None and not req.iter_failed:
            self.violate("C07", "task_after_cancel", f"task {name} of cancelled request r{req.label} created")
            if req.kind in ("apply", "start"):
                self.violate("C04", "task_after_cancel", f"task {name} of cancelled {req.kind} request r{req.label} created: cancelling the group did not stop the remainder")
        if pc.closed:
            self.violate("C08", "task_after_close", f"task {name} created in closed pool")
        if pc.size is not None and pc.n_run > pc.size and not pc.size_changed:
            self.violate("C01", "created_over_size", f"{pc.pool_str}: {pc.n_run} tasks for size {pc.size}")
            if pc.resized_idle:
                self.violate("C15", "assigned_limit_in_force", f"{pc.pool_str}: {pc.n_run} tasks although pool_size={pc.size} was assigned to the empty pool")
        if req.nc is not None:
            r = sum(1 for t in req.tasks if t.state in ("U", "L"))
            if r > req.nc:
                self.violate("C05", "num_concurrent", f"r{req.label}: {r} tasks running, num_concurrent={req.nc}")
        if req.elems is not None:
            turned = len(req.tasks) + req.skipped
            if req.pulls > turned:   # created task must correspond to the last pulled element
                self.violate("C05", "pull_ahead", f"r{req.label}: {req.pulls} pulled, {turned} turned into tasks/skipped")

    def _on_worker_start(self, inv, task):
        self.tick()
        trec = self.trec_of.get(task)
        req = inv.req
        pc = req.pc
        if trec is None:
            self.violate("C02", "untracked_worker", f"worker of r{req.label} runs in a task the pool did not create through its spawner")
            trec = TaskRec(pc, task, task.get_name(), len(pc.tasks), req, self.seq)
            trec.tid = -999
            pc.tasks.append(trec)
            req.tasks.append(trec)
            self.trec_of[task] = trec
            pc.n_run += 1
        if trec.state != "U":
            self.violate("C03", "worker_restart", f"{trec.name}: worker starts in state {trec.state}")
        trec.state = "L"
        if trec.inv is None or trec.inv is not inv:
            if trec.inv is not None:
                trec.inv.trec = None
            trec.inv = inv
            inv.trec = trec
        inv.state = "running"
        pc.live += 1
        self.ev("ws", pc.idx, trec.n)
        if pc.size is not None and pc.live > pc.size and not pc.size_changed:
            self.violate("C01", "live_over_size", f"{pc.pool_str}: {pc.live} workers live, size {pc.size}")
            if pc.resized_idle:
                self.violate("C15", "assigned_limit_in_force", f"{pc.pool_str}: {pc.live} workers live although pool_size={pc.size} was assigned to the empty pool")
        if req.cancelled_seq is not None and not req.iter_failed:
            self.violate("C07", "start_after_cancel", f"{trec.name} of cancelled r{req.label} started")
        if pc.closed:
            self.violate("C08", "start_after_close", f"{trec.name} started in closed pool")
        if req.elems is not None and inv.coro is not None and inv.idx < len(req.called_els):
            el = req.called_els[inv.idx]      # start order == iteration order
            if el <= req.last_started_el:
                self.violate("C05", "start_order", f"r{req.label}: element {el} started after element {req.last_started_el}")
            req.last_started_el = el
        self._op_point("ws", inv)
        return trec

    def _on_cancel_obs(self, inv, trec):
        self.tick()
        trec.cancel_obs += 1
        self.ev("wc", trec.pc.idx, trec.n)
        self.stats["fault:task_cancelled"] += 1
        if trec.pend_cancel <= 0:
            self.violate(self.last_cancel_prop, "spurious_cancel",
                         f"{trec.name} observed a CancelledError nobody requested")
            if self.last_cancel_prop != "C07":
                self.violate("C07", "spurious_cancel", f"{trec.name} observed a CancelledError nobody requested")
        trec.pend_cancel = 0
        mode = inv.cancel_modes.pop(0) if inv.cancel_modes else "p"
        if mode != "p":
            self.stats["fault:cancel_swallowed"] += 1
        inv.cur_mode = mode
        self._op_point("wc", inv)
        return mode

    def _on_worker_exit(self, inv, trec, how):
        self.tick()
        pc = trec.pc
        inv.state = "finished"
        trec.exit_how = how
        trec.seq_exit = self.seq
        pc.live -= 1
        self.ev("wx", pc.idx, trec.n, how)
        if trec.state != "L":
            self.violate("C03", "exit_state", f"{trec.name} exits in state {trec.state}")
        pc.n_run -= 1
        if trec.req.elems is not None and any(t.state == "L" and t.k < trec.k for t in trec.req.tasks):
            self.stats["probe:map_out_of_order_completion"] += 1
        ccb_kind = trec.req.ccb_kind
        if how == "cancel":
            trec.state = "C"
            pc.n_C += 1
            if ccb_kind is None:
                self._to_ended(trec)
        else:
            trec.state = "E"
            pc.n_E0 += 1
            pc.pending_done.append(trec)

    def _to_ended(self, trec):
        pc = trec.pc
        trec.state = "E"
        pc.n_C -= 1
        pc.n_E0 += 1
        pc.pending_done.append(trec)

    def _cb_enter(self, owner, which, task_id):
        self.tick()
        ct = asyncio.current_task()
        trec = self.trec_of.get(ct)
        pc = owner if isinstance(owner, PoolCtx) else owner.pc
        if trec is None:
            for t in pc.tasks:
                if t.tid == task_id:
                    trec = t
                    break
            if trec is None:
                self.violate("C03", "callback_unknown_task", f"{which}({task_id}) for no known task")
                trec = TaskRec(pc, ct, f"?{task_id}", -1, owner if isinstance(owner, ReqRec) else pc.reqs[0], self.seq)
                trec.tid = task_id
                trec.state = "E"
        elif task_id != trec.tid:
            self.violate("C11", "callback_id", f"{which} got id {task_id} inside {trec.name}")
            self.violate("C03", "callback_id", f"{which} got id {task_id} inside {trec.name}")
        self.ev(which, pc.idx, trec.n)
        pool = pc.pool
        if which == "ccb":
            trec.ccb_calls += 1
            trec.ccb_open = True
            if trec.ccb_calls > 1:
                self.violate("C03", "ccb_twice", f"cancel callback ran {trec.ccb_calls}x for {trec.name}")
            if trec.exit_how != "cancel":
                self.violate("C03", "ccb_without_cancel", f"cancel callback for {trec.name} whose coroutine ended by {trec.exit_how}")
            if trec.ecb_calls:
                self.violate("C03", "ccb_after_ecb", f"cancel callback after end callback for {trec.name}")
            exp = self.X.AlreadyCancelled
            if trec.state != "C":
                self.violate("C03", "ccb_state", f"{trec.name} in ledger state {trec.state} at cancel callback")
        else:
            trec.ecb_calls += 1
            trec.ecb_open = True
            pc.cb_open += 1
            if trec.ecb_calls > 1:
                self.violate("C03", "ecb_twice", f"end callback ran {trec.ecb_calls}x for {trec.name}")
                self.violate("C02", "ecb_twice", f"end callback ran {trec.ecb_calls}x for {trec.name}")
            if trec.exit_how is None:
                self.violate("C03", "ecb_before_end", f"end callback for {trec.name} before its coroutine finished")
            if trec.exit_how == "cancel" and trec.req.ccb_kind is not None and trec.ccb_calls == 0:
                self.violate("C03", "ecb_without_ccb", f"end callback before/without cancel callback for cancelled {trec.name}")
            exp = self.X.AlreadyEnded
            if trec.state != "E":
                self.violate("C03", "ecb_state", f"{trec.name} in ledger state {trec.state} at end callback")
        # classification probe through the public API
        if trec.n >= 0:
            try:
                pool.cancel(trec.tid)
            except exp:
                pass
            except Exception as e:
                self.violate("C03", f"{which}_classification", f"cancel({trec.tid}) inside {which} raised {type(e).__name__}, expected {exp.__name__}")
            else:
                self.violate("C03", f"{which}_classification", f"cancel({trec.tid}) inside {which} succeeded: task still counts as running")
        return trec

    def _cb_exit(self, trec, which):
        self.tick()
        self.ev(which + "x", trec.pc.idx, trec.n)
        if which == "ccb":
            trec.ccb_open = False
            if trec.state == "C":
                self._to_ended(trec)
        else:
            trec.ecb_open = False
            trec.pc.cb_open -= 1

    def _on_pull(self, req, i):
        self.tick()
        self.ev("pull", req.label, i)
        if req.cancelled_seq is not None:
            self.violate("C07", "pull_after_cancel", f"iterator of cancelled r{req.label} advanced to {i}")
        if self.cur_spawn is not None:
            self.violate("C09", "pull_in_request", "argument iterable advanced synchronously inside the spawn call")
        req.pulls = i + 1
        turned = len(req.tasks) + req.skipped
        if i > turned:
            self.violate("C05", "pull_ahead", f"r{req.label}: pulling element {i} while only {turned} turned into tasks/skipped")
        self._op_point("it", req)
        if req.spec["elems"][i] == 1:
            # a bad element: its call raises before reaching func; it will be skipped
            req.skipped += 1
            req.pc.call_failures += 1
            self.stats["fault:bad_element"] += 1

    def _arg_iter(self, req):
        for i in range(len(req.elems)):
            if req.spec["elems"][i] == 4:
                # the iterable itself fails here: the request can make no further progress
                self.tick()
                req.iter_failed = True
                req.cancelled_seq = req.cancelled_seq or self.seq   # nothing more is expected of it
                e = IterError(f"r{req.label} element {i}")
                self.injected.append(e)
                self.inj_by_pool[req.pc.idx] += 1
                self.stats["fault:iterator_raises"] += 1
                self.ev("iter_raises", req.label, i)
                raise e
            self._on_pull(req, i)
            yield req.elems[i]
        self.tick()
        req.exhausted = True
        self.ev("exhausted", req.label)

    # ------------------------------------------------------------------ op points (re-entrancy)
    def _op_point(self, kind, obj):
        self.stats["pt:" + kind] += 1
        if self.armed:
            for a in list(self.armed):
                if a[0] == kind:
                    a[1] -= 1
                    if a[1] <= 0:
                        self.armed.remove(a)
                        self.stats["reentrant:" + kind] += 1
                        self.exec_step(a[2], ctx=(kind, obj))
        self.check_counters("op:" + kind)

    # ------------------------------------------------------------------ monitors
    def check_counters(self, where):
        for pc in self.pools:
            p = pc.pool
            if pc.unnamed:
                for t in pc.unnamed:
                    expected = f"{pc.pool_str}_Task-{t.n}"
                    if t.name != expected:
                        self.violate("C11", "task_name", f"task #{t.n} of {pc.pool_str} is named {t.name!r}, expected {expected!r}")
                pc.unnamed = []
            if pc.pending_done:
                still = []
                for t in pc.pending_done:
                    if t.task.done():
                        t.done_flag = True
                        if pc.active_flush and t.forget == 0:
                            t.forget = 1
                            pc.n_E0 -= 1
                            pc.n_E1 += 1
                    else:
                        still.append(t)
                pc.pending_done = still
            nr = p.num_running
            ncan = p.num_cancelled
            ne = p.num_ended
            if nr != pc.n_run:
                self.violate("C03", "num_running", f"{where}: {pc.pool_str}.num_running={nr}, tasks created and not finished={pc.n_run}")
            if ncan != pc.n_C:
                self.violate("C03", "num_cancelled", f"{where}: {pc.pool_str}.num_cancelled={ncan}, tasks inside cancellation handling={pc.n_C}")
                self.violate("C13", "num_cancelled", f"{where}: {pc.pool_str}.num_cancelled={ncan}, tasks inside cancellation handling={pc.n_C}")
            if not (pc.n_E0 <= ne <= pc.n_E0 + pc.n_E1):
                self.violate("C03", "num_ended", f"{where}: {pc.pool_str}.num_ended={ne}, expected {pc.n_E0}..{pc.n_E0 + pc.n_E1}")
                self.violate("C13", "num_ended", f"{where}: {pc.pool_str}.num_ended={ne}, expected {pc.n_E0}..{pc.n_E0 + pc.n_E1}")
            if not pc.size_changed:
                if pc.size is not None:
                    if nr > pc.size:
                        self.violate("C01", "num_running_over_size", f"{where}: {pc.pool_str}.num_running={nr} > size {pc.size}")
                elif p.is_full and not pc.progress_off:
                    self.violate("C01", "unbounded_full", f"{where}: unbounded pool reports is_full")

    def after_handle(self):
        self.check_counters("handle")

    def check_idle(self):
        """Checks that are only meaningful when the loop is idle."""
        self.stats["idle_points"] += 1
        P = self.X
        for pc in self.pools:
            p = pc.pool
            nr = p.num_running
            cbs = pc.n_C + pc.cb_open
            self.states.add((pc.n_run, pc.n_C, min(pc.n_E0 + pc.n_E1, 5), pc.locked, pc.closed,
                             sum(1 for r in pc.reqs if r.work_left() and not r.spawner_done())))
            if pc.size_changed:
                self._check_limit(pc)
            if nr != pc.n_run:
                self.violate("C02", "idle_running", f"idle: {pc.pool_str}.num_running={nr} but {pc.n_run} tasks are in flight")
            if not pc.size_changed and not pc.progress_off and pc.size is not None and cbs == 0 and not any(t.early for t in pc.tasks):
                # (a task cancelled before its first step leaks its slot: recorded finding F-EARLY, decided by C02)
                full = p.is_full
                if full != (nr == pc.size):
                    self.violate("C01", "is_full", f"idle: is_full={full} with num_running={nr}, size={pc.size}")
            if p.is_locked != pc.locked:
                self.violate("C09", "is_locked", f"idle: is_locked={p.is_locked}, expected {pc.locked}")
            # lost cancellations
            for t in pc.tasks:
                if t.pend_cancel > 0 and t.state == "L":
                    self.violate(t.pend_prop or "C06", "cancel_lost", f"idle: {t.name} was cancelled but its worker never observed it")
            # work conservation
            if not pc.closed and not pc.size_changed and not pc.progress_off:
                full = p.is_full
                for r in pc.reqs:
                    if r.accepted_seq is None or not r.work_left():
                        continue
                    if full and pc.size:
                        self.stats["probe:spawner_blocked_on_full_pool"] += 1
                        if r.elems is not None:
                            self.stats["probe:map_blocked_on_pool"] += 1
                    if r.elems is None:
                        if not full and not r.spawner_done():
                            self.violate("C02", "work_conservation", f"idle: r{r.label} has invocations left, pool {pc.pool_str} not full")
                            if pc.resized_idle:
                                self.violate("C15", "assigned_room_unused", f"idle: r{r.label} waits although fewer than the assigned pool_size={pc.size} tasks run")
                            self.violate_progress(pc, "C04", "work_conservation", f"idle: r{r.label} has invocations left, pool {pc.pool_str} not full")
                        elif r.spawner_done():
                            self.violate_progress(pc, "C04", "spawner_gone", f"idle: spawner of r{r.label} finished with invocations left")
                    elif cbs == 0 and not full:
                        run = sum(1 for t in r.tasks if t.state in ("U", "L"))
                        if run != r.nc:
                            self.violate_progress(pc, "C05", "work_conservation", f"idle: r{r.label} has elements left and pool has room, {run} running != num_concurrent {r.nc}")
            # groups
            self._check_groups(pc)
            # closed pools
            if pc.closed:
                for d in pc.waiters:
                    if d.state == "active":
                        self.violate("C08", "waiter_stuck", "idle: pool closed but an until_closed() waiter is still blocked")

    def _check_groups(self, pc):
        P = self.X
        p = pc.pool
        seen = {}
        names = list(pc.live_names)
        for name in names:
            r = pc.live_names[name]
            exp = {t.tid for t in r.tasks}
            try:
                got = p.get_group_ids(name)
            except Exception as e:
                self.violate("C10", "group_missing", f"get_group_ids({name!r}) raised {type(e).__name__}")
                if r.elems is None:
                    self.violate("C04", "group_membership", f"{r.kind} r{r.label}: returned group {name!r} is unknown to the pool")
                continue
            if set(got) != exp:
                self.violate("C10", "group_ids", f"get_group_ids({name!r})={sorted(got)}, request created {sorted(exp)}")
                if r.elems is None:
                    self.violate("C04", "group_membership", f"{r.kind} r{r.label}: returned group {name!r} holds {sorted(got)}, its invocations run as {sorted(exp)}")
            for i in got:
                if i in seen and seen[i] != name:
                    self.violate("C10", "group_overlap", f"id {i} in groups {seen[i]!r} and {name!r}")
                seen[i] = name
        if len(names) >= 2:
            a, b = names[0], names[-1]
            exp = {t.tid for t in pc.live_names[a].tasks} | {t.tid for t in pc.live_names[b].tasks}
            try:
                got = p.get_group_ids(a, b)
                if set(got) != exp:
                    self.violate("C10", "group_union", f"get_group_ids({a!r},{b!r})={sorted(got)} != {sorted(exp)}")
            except Exception as e:
                self.violate("C10", "group_union", f"get_group_ids({a!r},{b!r}) raised {type(e).__name__}")
        for r in pc.reqs:
            if r.cancelled_seq is not None and r.gname is not None and r.gname not in pc.live_names:
                try:
                    p.get_group_ids(r.gname)
                except P.InvalidGroupName:
                    pass
                except Exception as e:
                    self.violate("C07", "forgotten_group_exc", f"get_group_ids of cancelled {r.gname!r} raised {type(e).__name__}")
                else:
                    self.violate("C07", "group_not_forgotten", f"cancelled group {r.gname!r} is still reported")
                    self.violate("C10", "group_not_forgotten", f"cancelled group {r.gname!r} is still reported")
        try:
            p.get_group_ids("no-such-group-xyz")
        except P.InvalidGroupName:
            pass
        except Exception as e:
            self.violate("C10", "unknown_group_exc", f"get_group_ids(unknown) raised {type(e).__name__}")
        else:
            self.violate("C10", "unknown_group_ok", "get_group_ids(unknown) returned")

    # ------------------------------------------------------------------ steps
    def exec_step(self, step, ctx=None):
        self._void_own = None
        op = step["op"]
        at = step.get("at")
        if at is not None and ctx is None:
            self.armed.append([at[0], at[1], step])
            return
        self.tick()
        try:
            fn = getattr(self, "_op_" + op)
        except AttributeError:
            raise HarnessError(f"unknown op {op}")
        self._ctx = ctx
        try:
            done = fn(step, ctx)
        finally:
            self._ctx = None
        if done is False:
            self.stats["skipped:" + op] += 1
        else:
            self.stats["op:" + op] += 1
            self.ev("op", op, step.get("p", 0), step.get("r"))

    def _pc(self, step):
        i = step.get("p", 0)
        return self.pools[i] if 0 <= i < len(self.pools) else None

    # ---- helpers for steering around recorded findings
    def _steer(self, tag):
        self.stats["steered:" + tag] += 1
        return False

    def _apply_outstanding(self, pc):
        return [r for r in pc.reqs if r.elems is None and r.accepted_seq is not None
                and r.cancelled_seq is None and not r.spawner_done()]

    # ---- spawn
    def _op_spawn(self, step, ctx):
        pc = self._pc(step)
        if pc is None:
            return False
        kind = step["kind"]
        if (kind == "start") != (pc.cls == "S"):
            return False
        label = step["r"]
        if label in self.reqs:
            return False
        X = self.X
        pool = pc.pool
        req = ReqRec(label, pc, kind, step)
        req.probe = bool(step.get("probe"))
        bad = step.get("bad")
        causes = []
        if kind == "start":
            req.num = step.get("num", 1)
            req.ecb_kind, req.ccb_kind = pc.ecb_kind, pc.ccb_kind
            req.payload_args, req.payload_kwargs = pc.payload_args, pc.payload_kwargs
            req.func = pc.simple_func
        else:
            req.ecb_kind, req.ccb_kind = step.get("ecb"), step.get("ccb")
            fname = FUNC_NAMES[step.get("fn", 0) % len(FUNC_NAMES)]
            req.func = self._make_func(req, step.get("fk", "sync"), fname)
            if kind == "apply":
                req.num = step.get("num", 1)
                req.payload_args, req.payload_kwargs = self._make_payload(("r", label), step.get("ash", 0))
            else:
                req.nc = step.get("nc", 1)
                elems = []
                for i, b in enumerate(step["elems"]):
                    if kind == "map":
                        elems.append(_FALSY[i % len(_FALSY)] if b == 2 else Payload(("el", label, i)))
                    elif kind == "starmap":
                        tup = (Payload(("el", label, i, 0)), Payload(("el", label, i, 1)))
                        if b == 6:
                            elems.append("ab")          # a string is an iterable of two arguments, like any other
                        elif b == 7:
                            elems.append(b"xy")         # bytes: two ints
                        elif b == 8:
                            elems.append(_OldSeq(tup))
                        else:
                            elems.append(7 if b == 1 else (() if b == 2 else (_OneShot(tup) if b == 3 else tup)))
                    else:
                        if b == 5:
                            elems.append({k: Payload(("el", label, i, k)) for k in ("group_name", "func", "self", "end_callback")})
                        elif b == 8:
                            elems.append(_KeysObj({"kw_a": Payload(("el", label, i, "a"))}))
                        else:
                            elems.append(7 if b == 1 else ({} if b == 2 else {"kw_a": Payload(("el", label, i, "a"))}))
                req.elems = elems
        func = req.func
        if bad == "notcoro":
            func = _not_coroutine_function(step.get("nck", 0))
            causes.append(X.NotCoroutineFunction)
        if pc.closed:
            causes.append(X.PoolIsClosed)
        elif pc.locked:
            causes.append(X.PoolIsLocked)
        if req.nc is not None and req.nc < 1:
            causes.append(ValueError)
        gn = step.get("gn")
        if gn is not None and kind != "start" and gn in pc.live_names:
            causes.append(X.InvalidGroupName)
        if kind == "start" and bad == "notcoro":
            return False
        ecb = None if kind == "start" else self._make_cb(req, "ecb", req.ecb_kind)
        ccb = None if kind == "start" else self._make_cb(req, "ccb", req.ccb_kind)
        before = self._snapshot(pc) if causes else None
        live_before = set(pc.live_names)
        counting = None
        self.cur_spawn = req
        exc = None
        ret = None
        # a request that has to be rejected because of the pool's state (or because func is no coroutine function) made
        # by synchronous code with NO running event loop (a worker thread, code after the loop has finished): the
        # check comes before anything needs a loop, so the documented error is what the caller gets
        noloop = bool(step.get("noloop")) and ctx is None and bool(causes) and (pc.closed or pc.locked or bad == "notcoro")
        if noloop:
            from asyncio import events as _events
            self.stats["probe:rejected_request_without_running_loop"] += 1
            _events._set_running_loop(None)
        try:
            try:
                if kind == "start":
                    ret = pool.start(req.num)
                elif kind == "apply":
                    kw = {}
                    if gn is not None:
                        kw["group_name"] = gn
                    call_args = req.payload_args
                    counting = None
                    if causes and step.get("ash") == 4:
                        counting = call_args = _CountingArgs(req.payload_args or (Payload(("r", label, "it0")),))
                    ret = pool.apply(func, call_args, req.payload_kwargs or None, req.num,
                                     end_callback=ecb, cancel_callback=ccb, **kw)
                else:
                    kw = {}
                    if gn is not None:
                        kw["group_name"] = gn
                    it = self._arg_iter(req)
                    if step.get("itk") in (1, 2):
                        it = _ReIterable(self, req)
                    ret = getattr(pool, kind)(func, it, req.nc, end_callback=ecb, cancel_callback=ccb, **kw)
            except Exception as e:
                exc = e
        finally:
            self.cur_spawn = None
            if noloop:
                _events._set_running_loop(self.loop)
        if causes:
            self.stats["fault:rejected_request"] += 1
            if exc is None:
                self.violate("C09", "accepted_invalid", f"{kind} accepted although {[c.__name__ for c in causes]} applies")
            elif not any(isinstance(exc, c) for c in causes):
                self.violate("C09", "wrong_rejection", f"{kind} raised {type(exc).__name__}, applicable: {[c.__name__ for c in causes]}")
            elif pc.closed and bad != "notcoro" and not isinstance(exc, X.PoolIsClosed):
                self.violate("C09", "closed_precedence", f"{kind} on closed pool raised {type(exc).__name__}")
                self.violate("C08", "closed_rejection", f"{kind} on closed pool raised {type(exc).__name__}")
            if exc is not None:
                if kind == "start":
                    pc.rejected_starts += 1
                if req.iter_in_request:
                    self.violate("C09", "args_iterable_touched", f"rejected {kind} called iter() on its argument iterable {req.iter_in_request}x")
                if kind == "apply" and step.get("ash") == 4 and counting is not None and counting.pulled:
                    self.violate("C09", "args_iterable_touched", f"rejected apply advanced its args iterator {counting.pulled}x")
                after = self._snapshot(pc)
                if after != before:
                    self.violate("C09", "trace_left", f"rejected {kind} changed observables: {before} -> {after}")
                if req.spawners:
                    self.violate("C09", "spawner_scheduled", f"rejected {kind} scheduled a spawner task")
                    for t in req.spawners:
                        self.spawner_req.pop(t, None)
                req.accepted_seq = None
                self.reqs[label] = req        # remembered as rejected (not in pc.reqs)
                req.cancelled_seq = self.seq
                return True
        elif exc is not None:
            self.violate("C09", "valid_rejected", f"valid {kind} raised {type(exc).__name__}: {exc}")
            if isinstance(exc, X.InvalidGroupName) and (gn is None or kind == "start"):
                self.violate("C10", "generated_name_collision", f"{kind} without a group name raised {type(exc).__name__}: {exc}")
            if pc.closed is False and isinstance(exc, X.PoolIsClosed):
                self.violate("C08", "closed_early", f"{kind} raised PoolIsClosed on an open pool")
            return True
        # accepted
        req.accepted_seq = self.seq
        req.gname = ret
        self.reqs[label] = req
        pc.reqs.append(req)
        if not isinstance(ret, str):
            self.violate("C10", "name_type", f"{kind} returned {ret!r}")
            return True
        if gn is not None and kind != "start":
            if ret != gn:
                self.violate("C10", "explicit_name", f"{kind}(group_name={gn!r}) returned {ret!r}")
        else:
            if kind == "start":
                m = _START_NAME_RE.match(ret)
                okname = bool(m)
                if m:
                    idx = int(m.group(1))
                    if pc.last_start_idx is not None and pc.rejected_starts and idx != pc.last_start_idx + 1:
                        self.violate("C09", "trace_left", f"start() returned {ret!r} after 'start-group-{pc.last_start_idx}': the {pc.rejected_starts} rejected start() calls in between advanced the group index")
                    pc.last_start_idx = idx
                    pc.rejected_starts = 0
            else:
                m = _GEN_NAME_RE.match(ret)
                # ({name} is func's name; a callable without __name__ - a functools.partial - only has to fit the pattern)
                okname = bool(m) and m.group(1) == kind and m.group(2) == getattr(func, "__name__", m.group(2))
            if not okname:
                self.violate("C10", "name_pattern", f"{kind} generated group name {ret!r}")
            if ret in live_before:
                self.violate("C10", "name_collision", f"{kind} generated live group name {ret!r}")
        pc.live_names[ret] = req
        if gn is not None and kind != "start" and ret != gn:
            # (already a C10 violation above.)  For the caller the name they asked for is now taken - a second request
            # with the same explicit name is a duplicate (C09), whatever name the pool filed the first one under
            pc.live_names.setdefault(gn, req)
        if kind == "start":
            pc.start_calls += 1
        return True

    def _snapshot(self, pc):
        p = pc.pool
        groups = []
        for name in pc.live_names:
            try:
                groups.append((name, tuple(sorted(p.get_group_ids(name)))))
            except Exception as e:
                groups.append((name, type(e).__name__))
        return (p.num_running, p.num_cancelled, p.num_ended, p.is_locked, p.is_full, tuple(groups),
                sum(len(r.calls) for r in self.reqs.values()), sum(r.pulls for r in self.reqs.values()),
                self.loop._task_seq, len(pc.tasks))

    # ---- cancel family
    def _classify_id(self, pc, tid):
        """Acceptable outcomes of cancel(tid): set of exception classes, or None when it must succeed."""
        X = self.X
        for t in pc.tasks:
            if t.tid == tid:
                if t.state in ("U", "L"):
                    return None, t
                if t.state == "C":
                    return {X.AlreadyCancelled}, t
                if t.forget == 0:
                    return {X.AlreadyEnded}, t
                if t.forget == 1:
                    return {X.AlreadyEnded, X.InvalidTaskID}, t
                return {X.InvalidTaskID}, t
        return {X.InvalidTaskID}, None

    def _void_self_cancel(self, ctx):
        """A worker requests the cancellation of its own task in its very last statement and then returns: the request
        can no longer be delivered to the coroutine, which ends normally - so no cancel callback, one end callback,
        running -> ended (C03 covers this).  What the then 'cancelled' asyncio task does to a later flush()/
        gather_and_close() is specified by no property, so this is only explored when C03 alone is being decided,
        and only if the end callback cannot suspend (a suspended callback would receive the CancelledError)."""
        if self.props != {"C03"} or ctx is None or ctx[0] != "we":
            return False
        own = ctx[1].trec
        if own is None or (own.req.ecb_kind or "s")[0] == "g":
            return False
        self._void_own = own
        self.stats["probe:self_cancel_in_last_statement"] += 1
        return True

    def _self_cancel_grey(self, ctx, targets):
        """A worker cancelling its own task with no suspension point left: outside the properties."""
        if ctx is None or ctx[0] not in ("ws", "we", "wc"):
            return False
        inv = ctx[1]
        tr = inv.trec
        if tr is None or tr not in targets:
            return False
        n = inv.script.get("g", 0)
        if ctx[0] == "we":
            return True
        if ctx[0] == "ws":
            return n == 0
        # "wc": only a swallowed cancellation re-awaits (the same gate); otherwise no suspension is left
        return getattr(inv, "cur_mode", "p") != "s"

    def _op_cancel(self, step, ctx):
        pc = self._pc(step)
        if pc is None:
            return False
        ids = []
        for ref in step["ids"]:
            if ref[0] == "raw":
                ids.append(ref[1])
            else:
                r = self.reqs.get(ref[1])
                if r is not None and 0 <= ref[2] < len(r.tasks) and r.pc is pc:
                    ids.append(r.tasks[ref[2]].tid)
        bad_classes = set()
        targets = []
        for i in ids:
            cls, t = self._classify_id(pc, i)
            if cls is None:
                if t not in targets:
                    targets.append(t)
            else:
                bad_classes |= cls
        if "F-EARLY" in self.steer and any(t.unstepped for t in targets):
            return self._steer("F-EARLY")
        if self._self_cancel_grey(ctx, targets) and not self._void_self_cancel(ctx):
            return False
        if any(t.early and t.task.done() for t in targets) and any(d.kind == "gather" for d in pc.act_drivers):
            # (unsteered F-EARLY runs only) a task that was cancelled before its first step is dead but still filed as
            # running; whether a gather_and_close() in progress has dropped it already is not observable from outside
            return False
        self.last_cancel_prop = "C06"
        try:
            if step.get("msg") is not None:
                pc.pool.cancel(*ids, msg=step["msg"])      # (the message for the CancelledError: cancels exactly the same tasks)
            else:
                pc.pool.cancel(*ids)
        except Exception as e:
            if not bad_classes:
                self.violate("C06", "valid_cancel_raised", f"cancel{tuple(ids)} raised {type(e).__name__}: {e}")
            elif not any(isinstance(e, c) for c in bad_classes):
                self.violate("C06", "wrong_error", f"cancel{tuple(ids)} raised {type(e).__name__}, expected one of {sorted(c.__name__ for c in bad_classes)}")
                if any(t is not None and t.forget for t in [self._classify_id(pc, i)[1] for i in ids]):
                    self.violate("C13", "wrong_error", f"cancel{tuple(ids)} raised {type(e).__name__}")
            self.stats["fault:cancel_rejected"] += 1
            return True
        if bad_classes:
            self.violate("C06", "bad_id_accepted", f"cancel{tuple(ids)} returned although an id is not running")
            forg = [self._classify_id(pc, i)[1] for i in ids]
            if any(t is not None and t.state == "E" for t in forg):
                self.violate("C13", "flushed_id_accepted", f"cancel{tuple(ids)} returned")
        for t in targets:
            if t is self._void_own:
                continue          # (its own request comes too late to be delivered: the coroutine returns first)
            t.pend_cancel += 1
            t.pend_prop = "C06"
            if t.unstepped:
                t.early = True
                self.stats["fault:cancel_before_first_step"] += 1
        if len(ids) != len(set(ids)):
            self.stats["fault:repeated_id"] += 1
        return True

    def _group_targets(self, req):
        return [t for t in req.tasks if t.state in ("U", "L")]

    def _op_cancel_group(self, step, ctx):
        pc = self._pc(step)
        if pc is None:
            return False
        X = self.X
        if "name" in step:
            name = step["name"]
        else:
            r = self.reqs.get(step.get("r"))
            if r is None or r.gname is None or r.pc is not pc:
                return False
            name = r.gname
        req = pc.live_names.get(name)
        if req is not None:
            if ctx is not None and ctx[0] in ("it", "fa") and ctx[1] is req and not self.run.get("own_iter_cancel"):
                return False
            targets = self._group_targets(req)
            if "F-EARLY" in self.steer and any(t.unstepped for t in targets):
                return self._steer("F-EARLY")
            if self._self_cancel_grey(ctx, targets) and not self._void_self_cancel(ctx):
                return False
        self.last_cancel_prop = "C07"
        before = self._snapshot(pc) if req is None else None
        try:
            if step.get("msg") is not None:
                pc.pool.cancel_group(name, msg=step["msg"])
            else:
                pc.pool.cancel_group(name)
        except Exception as e:
            if req is not None:
                self.violate("C07", "cancel_group_raised", f"cancel_group({name!r}) raised {type(e).__name__}: {e}")
            elif not isinstance(e, X.InvalidGroupName):
                self.violate("C07", "unknown_group_error", f"cancel_group({name!r}) raised {type(e).__name__}")
            elif self._snapshot(pc) != before:
                self.violate("C07", "unknown_group_changed", f"cancel_group of unknown {name!r} changed the pool")
            return True
        if req is None:
            self.violate("C07", "unknown_group_accepted", f"cancel_group({name!r}) of an unknown group returned")
            return True
        self._mark_group_cancelled(pc, name, req, "C07")
        return True

    def _mark_group_cancelled(self, pc, name, req, prop):
        req.cancelled_seq = self.seq
        pc.group_cancels += 1
        del pc.live_names[name]
        # ---- coverage probes for the placement classes named in C07's quantifier (statistics only;
        #      the peek at private attributes never feeds a verdict)
        ctx = self._ctx
        if ctx is not None:
            obj = ctx[1]
            own = (getattr(obj, "req", None) is req) or (obj is req)
            self.stats["place:cancel_from_" + ("own_group_" if own else "other_") + ctx[0]] += 1
        else:
            self.stats["place:cancel_from_caller"] += 1
        if not req.spawner_done():
            self.stats["fault:spawner_cancelled"] += 1
            if not req.calls and not req.pulls:
                self.stats["place:cancel_before_spawner_ran"] += 1
            else:
                try:
                    handed = any(w.done() and not w.cancelled() for w in (pc.pool._enough_room._waiters or ()))
                except Exception:
                    handed = False
                running = sum(1 for t in req.tasks if t.state in ("U", "L", "C"))
                if handed:
                    self.stats["place:cancel_after_slot_handed_over_before_spawner_resumed"] += 1
                elif req.nc is not None and running >= req.nc:
                    self.stats["place:cancel_while_waiting_for_map_slot"] += 1
                elif pc.size is not None and pc.n_run + pc.n_C >= pc.size:
                    self.stats["place:cancel_while_waiting_for_pool_room"] += 1
                else:
                    self.stats["place:cancel_spawner_other"] += 1
        else:
            self.stats["place:cancel_after_spawner_done"] += 1
        for t in self._group_targets(req):
            if t is self._void_own:
                continue          # (its own request comes too late to be delivered: the coroutine returns first)
            t.pend_cancel += 1
            t.pend_prop = prop
            if t.unstepped:
                t.early = True
                self.stats["fault:cancel_before_first_step"] += 1

    def _op_cancel_all(self, step, ctx):
        pc = self._pc(step)
        if pc is None:
            return False
        if ctx is not None and ctx[0] in ("it", "fa") and not self.run.get("own_iter_cancel"):
            return False
        targets = [t for r in pc.live_names.values() for t in self._group_targets(r)]
        if "F-EARLY" in self.steer and any(t.unstepped for t in targets):
            return self._steer("F-EARLY")
        if self._self_cancel_grey(ctx, targets) and not self._void_self_cancel(ctx):
            return False
        self.last_cancel_prop = "C07"
        try:
            if step.get("msg") is not None:
                pc.pool.cancel_all(msg=step["msg"])
            else:
                pc.pool.cancel_all()
        except Exception as e:
            self.violate("C07", "cancel_all_raised", f"cancel_all() raised {type(e).__name__}: {e}")
            return True
        for name in list(pc.live_names):
            self._mark_group_cancelled(pc, name, pc.live_names[name], "C07")
        return True

    def _op_stop(self, step, ctx):
        pc = self._pc(step)
        if pc is None or pc.cls != "S":
            return False
        n = step.get("n", 1)
        running = sorted((t for t in pc.tasks if t.state in ("U", "L")), key=lambda t: -t.tid)
        if step.get("all"):
            exp = running
        else:
            exp = running[:max(0, n)]
        if "F-EARLY" in self.steer and any(t.unstepped for t in exp):
            return self._steer("F-EARLY")
        if self._self_cancel_grey(ctx, exp) and not self._void_self_cancel(ctx):
            return False
        self.last_cancel_prop = "C14"
        try:
            got = pc.pool.stop_all() if step.get("all") else pc.pool.stop(n)
        except Exception as e:
            self.violate("C14", "stop_raised", f"stop({n}) raised {type(e).__name__}: {e}")
            return True
        exp_ids = [t.tid for t in exp]
        alt = None
        if any(d.state == "active" for d in pc.gathers) and any(t.early for t in running):
            # a close is in transit: tasks cancelled before their first step (recorded finding F-EARLY) may
            # already have been dropped from the pool's books or not - the statement does not say
            r2 = [t for t in running if not t.early]
            alt = [t.tid for t in (r2 if step.get("all") else r2[:max(0, n)])]
        if list(got) != exp_ids and list(got) != alt:
            self.violate("C14", "stop_ids", f"stop({'all' if step.get('all') else n}) returned {list(got)}, expected {exp_ids}")
        by = {t.tid: t for t in running}
        for t in exp:
            if t is self._void_own:
                continue          # (its own request comes too late to be delivered: the coroutine returns first)
            t.pend_cancel += 1
            t.pend_prop = "C14"
            if t.unstepped:
                t.early = True
                self.stats["fault:cancel_before_first_step"] += 1
        return True

    # ---- lock / unlock
    def _op_lock(self, step, ctx):
        pc = self._pc(step)
        if pc is None:
            return False
        out = self._apply_outstanding(pc)
        if out:
            if "F-LOCK" in self.steer:
                return self._steer("F-LOCK")
            for r in out:
                r.lock_hit = True
        pc.pool.lock()
        pc.locked = True
        if pc.pool.is_locked is not True:
            self.violate("C09", "lock", "is_locked false right after lock()")
        return True

    def _op_unlock(self, step, ctx):
        pc = self._pc(step)
        if pc is None:
            return False
        if any(d.state in ("new", "active") for d in pc.gathers):
            return False     # unlocking a pool that is being closed is outside every property
        pc.pool.unlock()
        pc.locked = False
        if pc.pool.is_locked is not False:
            self.violate("C09", "unlock", "is_locked true right after unlock()")
        return True

    # ---- drivers: flush / gather_and_close / until_closed
    def _start_driver(self, d, coro):
        self.drivers.append(d)
        self._creating_driver = True
        try:
            d.task = self.loop.create_task(coro, name=f"driver-{len(self.drivers)}")
        finally:
            self._creating_driver = False

    def _op_flush(self, step, ctx):
        pc = self._pc(step)
        if pc is None:
            return False
        d = Driver("flush", pc, bool(step.get("rex")))
        self._start_driver(d, self._drive_flush(d))
        return True

    def _forget_begin(self, d):
        pc = d.pc
        snap = []
        zero = [t for t in pc.tasks if t.forget == 0]
        for t in pc.tasks:
            if t.state == "E" and t.forget < 2:
                if not t.done_flag and t.task.done():
                    t.done_flag = True
                if t.done_flag:
                    if t.forget == 0:
                        t.forget = 1
                        pc.n_E0 -= 1
                        pc.n_E1 += 1
                    snap.append(t)
        pc.pending_done = [t for t in pc.pending_done if not t.done_flag]
        d.snapshot = snap
        d.sure = zero if d.kind == "gather" else [t for t in zero if t.forget == 1]
        if pc.act_drivers:
            d.overlapped = True
            for o in pc.act_drivers:
                o.overlapped = True
        pc.act_drivers.append(d)
        pc.active_flush += 1
        d.state = "active"
        d.seq_start = self.tick()

    def _forget_commit(self, d, everything=False):
        pc = d.pc
        for t in (pc.tasks if everything else d.snapshot):
            if t.forget == 2:
                continue
            if t.state != "E":
                continue
            if t.forget == 0:
                pc.n_E0 -= 1
            else:
                pc.n_E1 -= 1
            t.forget = 2

    async def _drive_flush(self, d):
        pc = d.pc
        self._forget_begin(d)
        if pc.n_C or pc.cb_open:
            self.stats["probe:flush_overlaps_open_callback"] += 1
        if pc.active_flush > 1:
            self.stats["fault:overlapping_flush"] += 1
        self.ev("flush_begin", pc.idx)
        exc = None
        try:
            await pc.pool.flush(return_exceptions=d.rex)
        except BaseException as e:
            exc = e
        if self.torn:
            return
        self.tick()
        pc.active_flush -= 1
        pc.act_drivers.remove(d)
        d.seq_end = self.seq
        self.ev("flush_end", pc.idx, type(exc).__name__ if exc else None)
        if exc is not None:
            d.state = "raised"
            d.exc = exc
            if d.rex:
                self.violate("C13", "flush_rex_raised", f"flush(return_exceptions=True) raised {type(exc).__name__}: {exc}")
                self.violate("C12", "flush_rex_raised", f"flush(return_exceptions=True) raised {type(exc).__name__}: {exc}")
            elif isinstance(exc, CancelledError) and self.cb_cancelled[pc.idx]:
                self.stats["probe:flush_raised_callback_cancellation"] += 1
            elif not any(exc is e for e in self.injected):
                self.violate("C12", "flush_foreign_exception", f"flush() raised {type(exc).__name__}: {exc!r}, not an exception of a task or callback")
                self.violate("C13", "flush_foreign_exception", f"flush() raised {type(exc).__name__}: {exc!r}")
            else:
                self.stats["probe:flush_raised_injected"] += 1
        else:
            d.state = "returned"
            if not d.rex:
                self._check_swallowed(d, "flush")
            self._forget_commit(d)
        self.check_counters("flush_end")

    def _check_swallowed(self, d, what):
        """The call returned normally with return_exceptions=False: none of the tasks it certainly covers (ended, for
        flush, or simply in the pool, for gather_and_close, and never possibly forgotten by an earlier or overlapping
        flush) may have ended with an exception of user code - that exception is what the call raises."""
        if d.overlapped:
            return
        for t in d.sure:
            if t.forget == 2 or not t.task.done() or t.task.cancelled():
                continue
            e = t.task.exception()
            if e is not None and any(e is x for x in self.injected):
                self.violate("C12", "exception_swallowed", f"{what}() returned normally although {t.name} ended with {type(e).__name__}: {e}")
                if what == "flush":
                    self.violate("C13", "exception_swallowed", f"flush() returned normally although {t.name} ended with {type(e).__name__}: {e}")
                return

    def _op_gather(self, step, ctx):
        pc = self._pc(step)
        if pc is None:
            return False
        out = self._apply_outstanding(pc)
        if out:
            if "F-LOCK" in self.steer:
                return self._steer("F-LOCK")
            for r in out:
                r.lock_hit = True
        d = Driver("gather", pc, bool(step.get("rex")))
        self._start_driver(d, self._drive_gather(d))
        pc.gathers.append(d)
        return True

    async def _drive_gather(self, d):
        pc = d.pc
        # the lock may have been steered away at step time but apply spawners may have appeared since
        out = self._apply_outstanding(pc)
        if out and "F-LOCK" in self.steer:
            self.stats["steered:F-LOCK"] += 1
            d.state = "dropped"
            return
        for r in out:
            r.lock_hit = True
        self._forget_begin(d)
        pc.locked = True
        self.ev("gather_begin", pc.idx)
        if any(r.work_left() for r in pc.reqs if r.elems is not None and r.accepted_seq is not None):
            self.stats["probe:gather_with_pending_map"] += 1
        if pc.n_C or pc.cb_open:
            self.stats["probe:gather_overlaps_open_callback"] += 1
        inj_before = self.inj_by_pool[pc.idx]
        exc = None
        try:
            await pc.pool.gather_and_close(return_exceptions=d.rex)
        except BaseException as e:
            exc = e
        if self.torn:
            return
        self.tick()
        pc.active_flush -= 1
        pc.act_drivers.remove(d)
        d.seq_end = self.seq
        self.ev("gather_end", pc.idx, type(exc).__name__ if exc else None)
        if exc is not None:
            d.state = "raised"
            d.exc = exc
            injected = any(exc is e for e in self.injected) or (isinstance(exc, CancelledError) and self.cb_cancelled[pc.idx] > 0)
            if d.rex:
                self.violate("C12", "gather_rex_raised", f"gather_and_close(return_exceptions=True) raised {type(exc).__name__}: {exc!r}")
            elif not injected:
                self.violate("C12", "gather_foreign_exception", f"gather_and_close() raised {type(exc).__name__}: {exc!r}, not an exception of a task or callback")
            if self.inj_by_pool[pc.idx] == 0:
                self.violate("C08", "gather_raised", f"gather_and_close() raised {type(exc).__name__}: {exc!r} although no task or callback raised")
            elif not injected:
                self.violate("C08", "gather_foreign_exception", f"gather_and_close() raised {type(exc).__name__}: {exc!r}")
            self.check_counters("gather_end")
            return
        d.state = "returned"
        # ---- the call returned: everything requested before must be over
        if pc.live:
            self.violate("C08", "returned_with_live_workers", f"gather_and_close returned while {pc.live} workers are still running")
        for t in pc.tasks:
            if not t.task.done():
                self.violate("C08", "returned_with_unfinished_task", f"gather_and_close returned, {t.name} (state {t.state}) not done")
                break
        for r in pc.reqs:
            if r.accepted_seq is not None and r.accepted_seq < d.seq_start and r.work_left():
                self.violate("C08", "returned_with_work_left", f"gather_and_close returned, r{r.label} has {r.total() - len(r.tasks) - r.skipped} invocations left")
                break
        for w in pc.waiters:
            if w.state == "returned" and not pc.closed:
                pass
        pc.closed = True
        if not d.rex:
            self._check_swallowed(d, "gather_and_close")
        self._forget_commit(d, everything=True)
        for t in pc.tasks:
            if t.state != "E":
                # forgotten while not ended: counters are expected to be zero anyway
                if t.state in ("U", "L"):
                    pc.n_run -= 1
                else:
                    pc.n_C -= 1
                t.state = "E"
                t.forget = 2
        pc.pending_done = []
        p = pc.pool
        if (p.num_running, p.num_cancelled, p.num_ended) != (0, 0, 0):
            self.violate("C08", "closed_counters", f"after close: counters {(p.num_running, p.num_cancelled, p.num_ended)}")
        self.check_counters("gather_end")

    def _op_until_closed(self, step, ctx):
        pc = self._pc(step)
        if pc is None:
            return False
        d = Driver("wait", pc)
        pc.waiters.append(d)
        self._start_driver(d, self._drive_wait(d))
        return True

    async def _drive_wait(self, d):
        pc = d.pc
        d.state = "active"
        try:
            res = await pc.pool.until_closed()
        except BaseException as e:
            if not self.torn:
                d.state = "raised"
                self.violate("C08", "until_closed_raised", f"until_closed() raised {type(e).__name__}")
            return
        if self.torn:
            return
        self.tick()
        d.state = "returned"
        self.ev("waiter_released", pc.idx)
        if not pc.closed:
            self.violate("C08", "waiter_released_early", "until_closed() returned before gather_and_close finished")

    # ---- gates, running the loop
    def _op_gate(self, step, ctx):
        key = tuple(step["key"])
        fut = self.gates.get(key)
        if fut is None or fut.done():
            return False
        del self.gates[key]
        if step.get("how") == "c" and key[0] == "c":
            # the future the callback awaits gets cancelled: CancelledError inside the user callback
            r = self.reqs.get(key[2])
            if r is not None:
                self.inj_by_pool[r.pc.idx] += 1
                self.cb_cancelled[r.pc.idx] += 1
            self.stats["fault:callback_cancelled"] += 1
            fut.cancel()
        elif step.get("how") == "x" and key[0] == "w":
            e = WorkerError(f"gate {key}")
            self.injected.append(e)
            r = self.reqs.get(key[1])
            if r is not None:
                self.inj_by_pool[r.pc.idx] += 1
            self.stats["fault:worker_raises"] += 1
            fut.set_exception(e)
        else:
            fut.set_result(None)
        return True

    def _run_handles(self, n):
        """Run up to n handles; returns number run; stops when idle."""
        loop = self.loop
        ran = 0
        inj = self.inject
        while ran < n:
            if inj and inj[0][0] <= loop.handles_run:
                _, st = inj.pop(0)
                self.exec_step(st)
                continue
            if self.remaining <= 0:
                self.remaining = loop.begin_iteration()
                if self.remaining == 0:
                    break
                self.stats["iterations"] += 1
            self.remaining -= 1
            if loop.run_one():
                ran += 1
                self.check_counters("handle")
                if loop.handles_run >= self.max_handles:
                    self.hit_cap = True
                    break
        return ran

    def run_to_idle(self, cap=None):
        if cap is None:
            cap = self.run.get("idle_cap", 5000)
        total = 0
        while True:
            r = self._run_handles(cap - total)
            total += r
            if self.hit_cap or total >= cap:
                return False
            if self.remaining <= 0 and self.loop.is_idle():
                if self.inject and not self.quiescing:
                    # positions beyond the end of the base run land at the idle point
                    _, st = self.inject.pop(0)
                    self.exec_step(st)
                    continue
                return True

    def _op_run(self, step, ctx):
        if ctx is not None:
            return False
        self._run_handles(step.get("n", 1))
        return True

    def _op_idle(self, step, ctx):
        if ctx is not None:
            return False
        if self.run_to_idle():
            self.check_idle()
        return True

    # ---- pool_size (C15 only: C01 fixes the size while tasks are in flight)
    def _op_size_get(self, step, ctx):
        pc = self._pc(step)
        if pc is None:
            return False
        import math
        exp = math.inf if pc.limit is None else pc.limit
        got = pc.pool.pool_size
        self.ev("size_get", pc.idx, str(got))
        waiting = any(r.work_left() for r in pc.reqs if r.accepted_seq is not None)
        if pc.n_run or pc.n_C or waiting:
            self.stats["probe:size_read_while_running"] += 1
            if got != exp:
                self.violate("C15", "getter_while_running", f"pool_size={got} with {pc.n_run} tasks running{' and requests waiting' if waiting else ''}, configured maximum {exp}")
        elif got != exp:
            self.violate("C15", "getter_idle", f"pool_size={got} on an empty pool, configured maximum {exp}",
                         tainted=pc.set_while_busy)
        return True

    def _pool_is_empty(self, pc, waiting_ok=False):
        if pc.n_run or pc.n_C or pc.cb_open or pc.closed or pc.size_changed or any(t.early for t in pc.tasks):
            return False
        if pc.pending_done and any(not t.task.done() for t in pc.pending_done):
            return False
        if waiting_ok:
            return True
        return not any(r.accepted_seq is not None and (r.work_left() or not r.spawner_done()) for r in pc.reqs)

    def _op_resize_idle(self, step, ctx):
        """A new size is assigned while the pool is empty (no task, no callback, no request in progress): from then
        on the pool is a pool of that size, and every limit oracle continues with the new value."""
        pc = self._pc(step)
        if pc is None or ctx is not None or not self._pool_is_empty(pc, bool(step.get("w"))):
            return False
        if not self._pool_is_empty(pc):
            if not self.loop.is_idle():
                return False         # a slot may be in transit to a spawner that was woken but has not run yet
            # No task is in flight, but spawners are waiting for room.  C01 lets the size change here (it is fixed
            # only "while tasks are in flight"); what the waiting spawners may expect afterwards is the recorded
            # finding F-SIZE (an assignment wakes nobody), so from now on only the limit oracles stay in force.
            pc.progress_off = True
            self.stats["probe:size_assigned_while_spawners_wait"] += 1
        import math
        v = step["v"]
        val = math.inf if v is None else v
        try:
            pc.pool.pool_size = val
        except Exception as e:
            self.violate("C15", "set_raised", f"pool_size={v} on an empty pool raised {type(e).__name__}: {e}")
            return True
        got = pc.pool.pool_size
        if got != val and not pc.progress_off:
            self.violate("C15", "getter_idle", f"pool_size={got} right after pool_size={val} was assigned to an empty pool")
        self.stats["probe:size_assigned_to_empty_pool"] += 1
        if (pc.size is None) != (v is None):
            self.stats["probe:empty_pool_bounded_unbounded_switch"] += 1
        pc.size = v
        pc.limit = v
        pc.resized_idle = True
        self.ev("resize_idle", pc.idx, str(v))
        return True

    def _op_size_set(self, step, ctx):
        pc = self._pc(step)
        if pc is None:
            return False
        v = step["v"]
        import math
        val = math.inf if v is None else v
        before = self._snapshot(pc)
        old = pc.pool.pool_size
        self.stats["op:set_size"] += 0
        try:
            pc.pool.pool_size = val
        except ValueError as e:
            if v is not None and v < 0:
                if self._snapshot(pc) != before or pc.pool.pool_size != old:
                    self.violate("C15", "negative_changed", f"pool_size={v} raised ValueError but changed the pool")
                self.stats["fault:negative_size"] += 1
                return True
            self.violate("C15", "set_raised", f"pool_size={v} raised ValueError: {e}")
            return True
        except Exception as e:
            self.violate("C15", "set_raised", f"pool_size={v} raised {type(e).__name__}: {e}")
            return True
        if v is not None and v < 0:
            self.violate("C15", "negative_accepted", f"pool_size={v} accepted")
            return True
        pc.size_changed = True
        if pc.n_run or pc.n_C:
            self.stats["probe:size_set_while_running"] += 1
            pc.set_while_busy = True
        if any(r.work_left() for r in pc.reqs if r.accepted_seq is not None):
            self.stats["probe:size_set_while_waiting"] += 1
            pc.set_while_busy = True
        pc.limit = v
        pc.size = v
        pc.last_set_seq = self.tick()
        pc.hi = pc.n_run          # running count may stay above a lowered limit, but must not grow
        if pc.live != self._live_before_set(pc):
            pass
        return True

    def _live_before_set(self, pc):
        return pc.live

    def _check_limit(self, pc):
        """C15 at an idle point after an assignment: the assigned value is the limit in force."""
        lim = pc.limit
        n = pc.n_run
        work = any(r.work_left() and r.accepted_seq is not None for r in pc.reqs)
        cbs = pc.n_C + pc.cb_open
        if lim is not None:
            allowed = max(lim, pc.hi)
            if n > allowed:
                self.violate("C15", "limit_in_force", f"idle: {n} tasks running after pool_size={lim} was assigned (at most {allowed} allowed)")
            if work and cbs == 0 and n < lim:
                self.violate("C15", "raise_does_not_wake", f"idle: {n} running < pool_size={lim} although requests are waiting for room")
        elif work and cbs == 0:
            self.violate("C15", "raise_does_not_wake", f"idle: unbounded pool_size assigned but requests are still waiting for room")
        pc.hi = min(pc.hi, n) if lim is not None and n > lim else (lim if lim is not None else 0)

    def _op_read(self, step, ctx):
        self.check_counters("read")
        return True

    # ------------------------------------------------------------------ quiescence and final checks
    def quiesce(self):
        """After the last fault: open every gate as it appears; the loop must go idle (bounded)."""
        self.quiescing = True
        self.armed.clear()
        self.inject = []
        rounds = 0
        while True:
            ok = self.run_to_idle(cap=20000)
            if not ok:
                return False
            keys = self.pending_gates()
            if not keys:
                return True
            for k in keys:
                f = self.gates.pop(k)
                if not f.done():
                    f.set_result(None)
            rounds += 1
            if rounds > 2000:
                return False

    def final_checks(self):
        for pc in self.pools:
            blocked_forever = pc.size == 0 or pc.progress_off
            for t in pc.tasks:
                if t.n < 0:
                    continue
                if t.state != "E" or not t.task.done():
                    self.violate("C02", "task_never_finished", f"end of run: {t.name} in state {t.state}, done={t.task.done()}")
                    self.violate("C03", "task_never_finished", f"end of run: {t.name} in state {t.state}, done={t.task.done()}")
                    continue
                ek, ck = t.req.ecb_kind, t.req.ccb_kind
                if ek is not None and t.ecb_calls != 1:
                    self.violate("C02", "ecb_count", f"end callback ran {t.ecb_calls}x for {t.name}")
                    self.violate("C03", "ecb_count", f"end callback ran {t.ecb_calls}x for {t.name}")
                    if pc.size_changed and not t.early:
                        self.violate("C15", "running_task_disturbed", f"pool_size was assigned while {t.name} was in the pool: its end callback ran {t.ecb_calls}x "
                                     "(an assignment disturbs no running task)")
                exp_c = 1 if (t.exit_how == "cancel" and ck is not None) else 0
                if t.ccb_calls != exp_c:
                    self.violate("C03", "ccb_count", f"cancel callback ran {t.ccb_calls}x for {t.name} (coroutine ended by {t.exit_how})")
                if t.pend_cancel > 0 and t.exit_how != "cancel" and t.cancel_obs == 0 and not t.early:
                    self.violate(t.pend_prop or "C06", "cancel_lost", f"{t.name} was cancelled but never observed it")
            if not pc.size_changed and not pc.progress_off and not pc.n_run and not pc.n_C and not pc.cb_open and not any(t.early for t in pc.tasks) \
                    and not any(r.work_left() for r in pc.reqs if r.accepted_seq is not None):
                import math
                exp = math.inf if pc.size is None else pc.size
                try:
                    got = pc.pool.pool_size
                except Exception as e:
                    got = e
                if got != exp:
                    self.violate("C15", "getter_idle_after_history", f"end of run: pool_size={got} on the idle pool {pc.pool_str}, configured maximum {exp}")
            if pc.n_run:
                self.violate("C02", "running_at_end", f"end of run: {pc.n_run} tasks still counted as running")
            if pc.size_changed and pc.last_set_seq is not None and not pc.closed and not any(t.early for t in pc.tasks):
                # after an assignment made while spawners were waiting, a task ended (a slot was handed back): whoever waited for
                # room must have been woken by that, whatever the recorded finding F-SIZE does to the numbers
                ended_after = any(t.seq_exit is not None and t.seq_exit > pc.last_set_seq for t in pc.tasks)
                stuck = [r for r in pc.reqs if r.accepted_seq is not None and r.work_left() and not r.spawner_done()]
                lim = pc.limit
                if ended_after and stuck and pc.n_run == 0 and pc.n_C == 0 and (lim is None or lim > 0):
                    self.violate("C15", "waiter_never_woken", f"end of run: r{stuck[0].label} still waits for room in the empty pool {pc.pool_str} although tasks "
                                 f"ended after pool_size={lim} was assigned")
            for r in pc.reqs:
                if r.accepted_seq is None or r.cancelled_seq is not None or r.probe:
                    continue
                if blocked_forever:
                    continue
                if r.elems is None:
                    if len(r.calls) != r.num:
                        self.violate_progress(pc, "C04", "call_count", f"r{r.label} {r.kind}(num={r.num}): func called {len(r.calls)}x")
                    if len(r.tasks) != r.num - r.skipped:
                        self.violate_progress(pc, "C04", "task_count", f"r{r.label} {r.kind}(num={r.num}): {len(r.tasks)} tasks, {r.skipped} skipped")
                    seen = set()
                    for t in r.tasks:
                        if t.inv is None or id(t.inv) in seen:
                            self.violate("C04", "invocation_task", f"r{r.label}: task {t.name} has no invocation of its own")
                        else:
                            seen.add(id(t.inv))
                else:
                    good = [i for i, b in enumerate(r.spec["elems"]) if b != 1]
                    if r.pulls != len(r.elems) or not r.exhausted:
                        self.violate_progress(pc, "C05", "not_exhausted", f"r{r.label} {r.kind}: {r.pulls}/{len(r.elems)} elements pulled")
                    if r.spec.get("fk", "sync") in ("sync", "abc", "part"):
                        if r.called_els != good:
                            self.violate_progress(pc, "C05", "elements_called", f"r{r.label}: func called for elements {r.called_els}, expected {good}")
                        nfail = sum(1 for c in r.calls if c.state == "failed")
                        if len(r.tasks) != len(good) - nfail:
                            self.violate_progress(pc, "C05", "task_count", f"r{r.label}: {len(r.tasks)} tasks for {len(good)} good elements ({nfail} failed calls)")
                    elif len(r.tasks) != len(good):
                        self.violate_progress(pc, "C05", "task_count", f"r{r.label}: {len(r.tasks)} tasks for {len(good)} good elements")
            if pc.closed:
                for d in pc.waiters:
                    if d.state != "returned":
                        self.violate("C08", "waiter_stuck", "end of run: pool closed, until_closed() waiter never released")
            work_left = any(r.work_left() for r in pc.reqs if r.accepted_seq is not None)
            for d in pc.gathers:
                if d.state == "active" and not work_left:
                    self.violate("C08", "gather_never_returned", "end of run: every task finished but gather_and_close() did not return")
                    if self.inj_by_pool[pc.idx]:
                        self.violate("C12", "gather_never_returned", f"end of run: every task finished but gather_and_close(return_exceptions={d.rex}) did not return (after a task/callback of this pool had raised)")
        for d in self.drivers:
            if d.kind == "flush" and d.state == "active":
                self.violate("C13", "flush_never_returned", "end of run: flush() did not return")
                if self.inj_by_pool[d.pc.idx]:
                    self.violate("C12", "flush_never_returned", "end of run: flush() did not return (after a task/callback of this pool had raised)")

    def capacity_probe(self):
        """C02/C12: once all work is finished an N-sized pool can again run N tasks at once."""
        for pc in self.pools:
            N = pc.size
            if N is None or N == 0 or N > 8 or pc.closed or pc.size_changed or pc.progress_off:
                continue
            if pc.n_C or pc.cb_open:
                continue
            tagged = ["C02"] + (["C12"] if self.inj_by_pool[pc.idx] or self.stats["fault:factory_raises"] else [])
            if pc.locked:
                pc.pool.unlock()
                pc.locked = False
            label = self.next_label
            self.next_label += 1
            if pc.cls == "S":
                self.probe_mode = True
                st = {"op": "spawn", "p": pc.idx, "r": label, "kind": "start", "num": N + 1, "probe": 1}
            else:
                st = {"op": "spawn", "p": pc.idx, "r": label, "kind": "apply", "num": N + 1, "probe": 1,
                      "sc": [{"g": 1}]}
            self.exec_step(st)
            req = self.reqs.get(label)
            if req is None or req.accepted_seq is None:
                self.probe_mode = False
                continue
            self.stats["capacity_probes"] += 1
            self.run_to_idle()
            started = sum(1 for t in req.tasks if t.state == "L")
            if started != N:
                for tg in tagged:
                    self.violate(tg, "capacity", f"probe: {started} of {N + 1} probe tasks run at once in idle {pc.pool_str} of size {N}")
            # let one go: the last one must start
            keys = [k for k in self.pending_gates() if k[0] == "w" and k[1] == label]
            if keys:
                self.gates.pop(keys[0]).set_result(None)
            self.run_to_idle()
            total = sum(1 for t in req.tasks if t.state in ("L", "E"))
            if total != N + 1 and started == N:
                for tg in tagged:
                    self.violate(tg, "capacity_handoff", f"probe: {total} of {N + 1} probe tasks started after one finished")
            self.quiesce()
            self.probe_mode = False
            if pc.n_run:
                for tg in tagged:
                    self.violate(tg, "capacity_end", f"probe: {pc.n_run} tasks still running")
            self.check_idle()

    # ------------------------------------------------------------------ top level
    def execute(self, source=None):
        run = self.run
        self.inject = sorted(([i["h"], i["step"]] for i in run.get("inject", ())), key=lambda x: x[0])
        self.max_handles = run.get("max_handles", 20000)
        gc_was = gc.isenabled()
        gc.disable()
        from .loop import Watchdog
        if Watchdog.tripped:
            # an earlier run in this process stalled inside library code: every further run would cost seconds of
            # spinning; the stall is reported, the remaining units of this worker are skipped
            self.hit_cap = True
            self._teardown()
            if gc_was:
                gc.enable()
            return self
        wd = Watchdog(self)
        wd.start()
        try:
            with running(self.loop), warnings.catch_warnings(record=True) as wlist:
                warnings.simplefilter("always")
                if self.cfg.get("wfilter") == "error":
                    # configuration knob: the process treats warnings as errors (-W error); applied to the library's own
                    warnings.filterwarnings("error", module=r"asyncio_taskpool")
                    # ... and to what the library issues on behalf of its caller (warnings.warn(..., stacklevel=3) is
                    # attributed to the module that called the pool method, i.e. to the harness)
                    warnings.filterwarnings("error", category=UserWarning)
                    warnings.filterwarnings("error", category=DeprecationWarning)
                self.warn_list = wlist
                if source is None:
                    for step in run["steps"]:
                        if self.hit_cap:
                            break
                        self.exec_step(step)
                        if len(self.viol) >= self.MAX_VIOL:
                            break
                else:
                    while not self.hit_cap and len(self.viol) < self.MAX_VIOL:
                        step = source(self)
                        if step is None:
                            break
                        run["steps"].append(step)
                        self.exec_step(step)
                self.run_phase_done = True
                if getattr(self, "stalled", False):
                    self.violate(run.get("prop") or "C02", "loop_stalled", "the event loop was kept busy inside ONE handle for seconds of CPU time "
                                 "(interrupted by the watchdog): library code is spinning without yielding")
                while self.inject and not self.hit_cap and len(self.viol) < self.MAX_VIOL:
                    _, st = self.inject.pop(0)      # positions at/after the end of the step list
                    self.exec_step(st)
                if not self.hit_cap and len(self.viol) < self.MAX_VIOL:
                    self.handles_before_quiesce = self.loop.handles_run
                    ok = self.quiesce()
                    if not ok:
                        self.violate("C02", "no_quiescence", "loop did not go idle within the bound after the last fault")
                        self.stats["no_quiescence"] += 1
                    else:
                        self.check_idle()
                        self.final_checks()
                        if run.get("probe", True):
                            self.capacity_probe()
                self.stats["warnings"] += len(wlist)
                for w in wlist:
                    if "never awaited" in str(w.message):
                        self.stats["probe:coroutine_never_awaited"] += 1
                self._teardown()
        finally:
            wd.stop()
            if gc_was:
                gc.enable()
        return self

    def _teardown(self):
        self.torn = True
        self.stats["handles"] = self.loop.handles_run
        self.stats["exc_log"] = len(self.loop.exc_log)
        # cancel whatever is left so that no coroutine lingers un-finalised
        for t in list(asyncio.all_tasks(self.loop)):
            if not t.done():
                t.cancel()
        try:
            self.loop.run_until_idle(2000)
        except Exception:
            pass
        for r in self.reqs.values():
            for c in r.calls:
                if c.coro is not None:
                    try:
                        c.coro.close()
                    except Exception:
                        pass
        self.loop.finish()
        try:
            self.pmod.BaseTaskPool._pools.clear()
        except Exception:
            pass


def run_sim(run, props=None, source=None):
    sim = Sim(run, props)
    sim.execute(source)
    return sim


def generate_and_run(seed, prop, props=None, clean=True, phased=False):
    """Draw a configuration and a step list from *seed* while executing it."""
    from .gen import Gen, PhasedGen, ScaleGen, BigGen
    if phased == "huge":
        g = ScaleGen(seed, prop, clean, index=seed)
    elif phased == "big":
        g = BigGen(seed, prop, clean)
    else:
        g = (PhasedGen if phased else Gen)(seed, prop, clean)
    run = {"prop": prop, "seed": seed, "clean": clean, "config": g.make_config(), "steps": [], "max_handles": 400000, "idle_cap": 200000}
    sim = Sim(run, props)
    sim.execute(g.next_step)
    return sim
