"""Stub validation (informational, never a verdict): the same scripted control scenario is run
once on the simulated network and once over REAL unix sockets on a stock asyncio loop; handshake
reply, per-line replies and the lifecycle observations are compared.

  python -m tpsim.stubcheck [n_scenarios]
"""
import asyncio
import json
import os
import random
import shutil
import sys
import tempfile

from .ctlsim import CtlSim
from . import ctl_engine  # noqa: F401  (registers the final checks on CtlSim)
from .shim import shim_class

LINES = ["num-running", "is-locked", "lock", "is-locked", "unlock", "pool-size", "pool-size 3", "pool-size", "pool-size -2",
         "-h", "cancel 5", "cancel-group nope", "get-group-ids", "get-group-ids g1", "bogus", "flush", "flush -r",
         "apply tpsim.ctlworkers.work -n 0", "num-ended", "cancel-all", "is-full", "map tpsim.ctlworkers.work [] -n 0",
         "stop 1", "start x", "apply", "cancel -h"]


def scenario(rng):
    cls = rng.choice(["T", "S"])
    lines = [rng.choice(LINES) for _ in range(rng.choice([3, 6, 10]))]
    return cls, lines


def run_sim(cls, lines):
    steps = [{"op": "start"}, {"op": "idle"}, {"op": "connect", "c": 1, "w": 80}, {"op": "idle"}]
    for ln in lines:
        steps += [{"op": "line", "c": 1, "text": ln}, {"op": "idle"}]
    steps += [{"op": "close", "c": 1, "how": "close"}, {"op": "idle"}, {"op": "stop"}, {"op": "idle"}]
    run = {"prop": "C19", "config": {"transport": "unix", "cls": cls, "size": None, "hmask": 0, "net_seed": 1,
                                     "net": {"frag": 0.0}, "name": "p"}, "steps": steps, "final": ["c19"]}
    sim = CtlSim(run, None).execute()
    c = sim.clients[1]
    writes = [w.decode() for w in c.server_writes()]
    return {"handshake": writes[0] if writes else None, "replies": writes[1:],
            "serving_task_done": sim.serving_task.done() if sim.serving_task else None,
            "violations": [v["oracle"] for v in sim.viol]}


async def _real(cls, lines, path):
    from asyncio_taskpool.pool import TaskPool, SimpleTaskPool
    from asyncio_taskpool.control.server import UnixControlServer
    from . import ctlworkers
    base = SimpleTaskPool if cls == "S" else TaskPool
    k = shim_class(base)
    if cls == "S":
        pool = k(ctlworkers.work, args=(1, "a"), kwargs={"k": 2}, end_callback=ctlworkers.on_end,
                 cancel_callback=ctlworkers.on_cancel, name="p")
    else:
        pool = k(name="p")
    server = UnixControlServer(pool, socket_path=path)
    task = await server.serve_forever()
    reader, writer = await asyncio.open_unix_connection(path)
    writer.write(json.dumps({"terminal_width": 80}).encode() + b"\n")
    await writer.drain()
    hs = (await reader.readline()).decode()
    replies = []
    for ln in lines:
        writer.write(ln.encode() + b"\n")
        await writer.drain()
        buf = b""
        # a reply is one write ending in "\n"; collect until the stream has been quiet for a moment
        while True:
            try:
                chunk = await asyncio.wait_for(reader.read(65536), 0.15)
            except asyncio.TimeoutError:
                break
            if not chunk:
                break
            buf += chunk
        replies.append(buf.decode())
    writer.close()
    await asyncio.sleep(0.05)
    task.cancel()
    try:
        await asyncio.wait_for(asyncio.shield(task), 2)
        done = True
    except asyncio.TimeoutError:
        done = False
    exists = os.path.exists(path)
    try:
        await asyncio.open_unix_connection(path)
        refused = False
    except (FileNotFoundError, ConnectionRefusedError):
        refused = True
    return {"handshake": hs, "replies": replies, "serving_task_done": done, "socket_left": exists, "refused": refused}


def run_real(cls, lines):
    d = tempfile.mkdtemp(prefix="tpstub-")
    try:
        return asyncio.run(_real(cls, lines, os.path.join(d, "s.sock")))
    finally:
        shutil.rmtree(d, ignore_errors=True)


def main():
    n = int(sys.argv[1]) if len(sys.argv) > 1 else 10
    rng = random.Random(7)
    bad = 0
    for i in range(n):
        cls, lines = scenario(rng)
        a = run_sim(cls, lines)
        b = run_real(cls, lines)
        same = a["handshake"] == b["handshake"] and a["replies"] == b["replies"] and a["serving_task_done"] == b["serving_task_done"]
        ok = same and not b["socket_left"] and b["refused"] and not a["violations"]
        print(f"scenario {i} cls={cls} lines={len(lines)}: {'agree' if ok else 'DIFFER'}")
        if not ok:
            bad += 1
            for j, (x, y) in enumerate(zip(a["replies"], b["replies"])):
                if x != y:
                    print("   line", lines[j], "sim:", repr(x[:80]), "real:", repr(y[:80]))
            print("  ", {k: v for k, v in a.items() if k != "replies"}, {k: v for k, v in b.items() if k != "replies"})
    print("stub validation:", "all scenarios agree" if not bad else f"{bad} scenarios differ", "(informational)")
    return 0


if __name__ == "__main__":
    sys.exit(main())
