"""In-memory network for SimLoop: listeners, connections and transports with seeded latency,
fragmentation/coalescing, back-pressure, resets, half-closes and vanishing peers.

The real ``asyncio.base_events.Server``, ``asyncio.start_server/open_connection`` and the stream
classes run unmodified on top of this; only the transport and the listening socket are fakes.
"""
from __future__ import annotations

import asyncio
import errno
import os
import random
import socket
from asyncio import base_events, tasks
from collections import Counter

from .loop import SimLoop



def _check_sun_path(path):
    """bind()/connect() of an AF_UNIX socket: the address as GIVEN (relative paths stay relative) must fit sun_path."""
    if len(os.fsencode(path)) > 107:
        raise OSError("AF_UNIX path too long")

class FakeSocket:
    _next_fd = 1000

    def __init__(self, family, key, addr):
        FakeSocket._next_fd += 1
        self._fd = FakeSocket._next_fd
        self.family = family
        self.type = socket.SOCK_STREAM
        self.proto = 0
        self.key = key
        self.addr = addr
        self.closed = False

    def listen(self, backlog):
        pass

    def close(self):
        self.closed = True

    def fileno(self):
        return -1 if self.closed else self._fd

    def getsockname(self):
        return self.addr

    def setblocking(self, flag):
        pass


class SimTransport(asyncio.Transport):
    def __init__(self, net, loop, protocol, side, server=None, extra=None):
        super().__init__(extra or {})
        self.net = net
        self.loop = loop
        self._protocol = protocol
        self.side = side                # "client" / "server"
        self.peer = None
        self._server = server
        self._closing = False
        self._lost = False              # connection_lost delivered (or scheduled)
        self._dead = False              # fully closed: the peer's writes are answered with RST
        self._buf = bytearray()         # written, not yet delivered to the peer
        self._paused_reading = False
        self._inbox = []                # chunks that arrived while reading was paused
        self._proto_paused = False
        self._eof_written = False
        self._fin_sent = False
        self._stalled = False           # slow reader: nothing is taken from the peer's buffer
        self._vanished = False
        self._pump_handle = None
        self._hi = net.cfg.get("hi", 64 * 1024)
        self._lo = self._hi // 4
        self.writes = []                # every write() call, in order (bytes)
        self.received = bytearray()
        self.conn_id = None
        if server is not None:
            server._attach()

    # ---------------------------------------------------------------- asyncio.Transport API
    def get_protocol(self):
        return self._protocol

    def set_protocol(self, protocol):
        self._protocol = protocol

    def is_closing(self):
        return self._closing

    def is_reading(self):
        return not self._paused_reading and not self._closing

    def pause_reading(self):
        self._paused_reading = True

    def resume_reading(self):
        if not self._paused_reading:
            return
        self._paused_reading = False
        if self._inbox:
            self.loop.call_soon(self._drain_inbox)
        if self.peer is not None:
            self.peer._kick()

    def get_write_buffer_size(self):
        return len(self._buf)

    def get_write_buffer_limits(self):
        return (self._lo, self._hi)

    def set_write_buffer_limits(self, high=None, low=None):
        if high is None:
            high = 64 * 1024 if low is None else 4 * low
        if low is None:
            low = high // 4
        self._hi, self._lo = high, low
        self._maybe_pause()

    def can_write_eof(self):
        return True

    def write(self, data):
        if not isinstance(data, (bytes, bytearray, memoryview)):
            raise TypeError(f"data argument must be a bytes-like object, not {type(data).__name__!r}")
        if self._eof_written:
            raise RuntimeError("Cannot call write() after write_eof()")
        self.writes.append(bytes(data))
        self.net.stats["writes:" + self.side] += 1
        if not data:
            return
        if self._lost or self._closing:
            self.net.stats["write_after_close"] += 1
            return
        peer = self.peer
        if peer is None or peer._dead:
            # the peer is gone: the kernel would answer with RST
            self.net.stats["fault:write_to_dead_peer"] += 1
            self.loop.call_later(self.net.latency(), self._fatal, ConnectionResetError(errno.ECONNRESET, "Connection reset by peer"))
            return
        self._buf += data
        self._maybe_pause()
        self._kick()

    def writelines(self, list_of_data):
        self.write(b"".join(list_of_data))

    def write_eof(self):
        if self._closing or self._eof_written:
            return
        if self.peer is None or self.peer._dead:
            # the peer has closed/reset already but this end has not been told yet: shutdown(SHUT_WR) fails
            self.net.stats["fault:write_eof_on_reset_connection"] += 1
            raise OSError(errno.ENOTCONN, "Transport endpoint is not connected")
        self._eof_written = True
        self.net.stats["fault:half_close"] += 1
        if not self._buf:
            self._send_fin()

    def close(self):
        if self._closing:
            return
        self._closing = True
        self.net.stats["close:" + self.side] += 1
        if not self._buf:
            self.loop.call_soon(self._finish_close)

    def abort(self):
        self._force_close(None, rst=True)

    # ---------------------------------------------------------------- harness-only controls
    def vanish(self):
        """This end's machine disappears: whatever arrives is dropped, nothing (no FIN, no RST) is ever sent."""
        self._vanished = True
        self._buf.clear()
        self.net.stats["fault:vanish"] += 1

    def stall(self, flag=True):
        """Slow reader: stop/resume taking bytes from the peer's buffer (drives back-pressure)."""
        self._stalled = flag
        if flag:
            self.net.stats["fault:slow_reader"] += 1
        elif self.peer is not None:
            self.peer._kick()

    # ---------------------------------------------------------------- internals
    def _maybe_pause(self):
        size = len(self._buf)
        if size > self._hi and not self._proto_paused:
            self._proto_paused = True
            self.net.stats["fault:back_pressure"] += 1
            try:
                self._protocol.pause_writing()
            except Exception as e:  # pragma: no cover
                self.loop.call_exception_handler({"message": "pause_writing failed", "exception": e})

    def _maybe_resume(self):
        if self._proto_paused and len(self._buf) <= self._lo:
            self._proto_paused = False
            try:
                self._protocol.resume_writing()
            except Exception as e:  # pragma: no cover
                self.loop.call_exception_handler({"message": "resume_writing failed", "exception": e})

    def _kick(self):
        if self._pump_handle is None and (self._buf or (self._closing and not self._lost)) and not self._lost:
            if self._buf:
                self._pump_handle = self.loop.call_later(self.net.latency(), self._pump)

    def _pump(self):
        self._pump_handle = None
        if self._lost:
            return
        peer = self.peer
        if peer is None or peer._dead or peer._lost:
            self._buf.clear()
            self._fatal(ConnectionResetError(errno.ECONNRESET, "Connection reset by peer"))
            return
        if peer._stalled:
            return          # stays buffered; re-kicked by stall(False)
        if self._buf:
            k = self.net.chunk(len(self._buf))
            chunk = bytes(self._buf[:k])
            del self._buf[:k]
            if k < len(chunk) + len(self._buf):
                self.net.stats["fault:fragment"] += 1
            peer._deliver(chunk)
            self._maybe_resume()
        if self._buf:
            self._pump_handle = self.loop.call_later(self.net.latency(), self._pump)
        elif self._closing:
            self._finish_close()
        elif self._eof_written and not self._fin_sent:
            self._send_fin()

    def _deliver(self, chunk):
        if self._lost or self._vanished:
            return
        self.net.stats["segments:" + self.side] += 1
        if self._paused_reading:
            self._inbox.append(chunk)
            return
        self.received += chunk
        try:
            self._protocol.data_received(chunk)
        except Exception as e:
            self._fatal(e)

    def _drain_inbox(self):
        while self._inbox and not self._paused_reading and not self._lost:
            chunk = self._inbox.pop(0)
            self.received += chunk
            self._protocol.data_received(chunk)

    def _send_fin(self):
        if self._fin_sent:
            return
        self._fin_sent = True
        peer = self.peer
        if peer is not None:
            self.loop.call_later(self.net.latency(), peer._on_fin)

    def _on_fin(self):
        if self._lost or self._closing or self._vanished:
            return
        self.net.stats["fin_received:" + self.side] += 1
        try:
            keep_open = self._protocol.eof_received()
        except Exception as e:
            self._fatal(e)
            return
        if not keep_open:
            self.close()

    def _finish_close(self):
        if self._lost:
            return
        self._send_fin()
        self._dead = True
        self._call_connection_lost(None)

    def _force_close(self, exc, rst=False):
        if self._lost:
            return
        self._buf.clear()
        if self._pump_handle is not None:
            self._pump_handle.cancel()
            self._pump_handle = None
        self._closing = True
        self._dead = True
        self._lost = True
        self.loop.call_soon(self._call_connection_lost_now, exc)
        if rst and self.peer is not None:
            self.net.stats["fault:reset"] += 1
            self.loop.call_later(self.net.latency(), self.peer._on_rst)

    def _on_rst(self):
        if self._lost or self._vanished:
            return
        self._force_close(ConnectionResetError(errno.ECONNRESET, "Connection reset by peer"))

    def _fatal(self, exc):
        if self._lost:
            return
        self._force_close(exc)

    def _call_connection_lost(self, exc):
        if self._lost:
            return
        self._lost = True
        self._closing = True
        self._call_connection_lost_now(exc)

    def _call_connection_lost_now(self, exc):
        try:
            self._protocol.connection_lost(exc)
        finally:
            self.net.stats["connection_lost:" + self.side] += 1
            server, self._server = self._server, None
            if server is not None:
                server._detach()


class SimNet:
    def __init__(self, loop, seed, cfg=None):
        self.loop = loop
        self.cfg = cfg or {}
        self.rng = random.Random(seed)
        self.listeners = {}        # key -> (protocol_factory, server, sock)
        self.conns = []            # (client_transport, server_transport): strong references on purpose
        self.stats = Counter()
        self.unix_files = []

    def latency(self):
        lo, hi = self.cfg.get("lat", (0.001, 0.02))
        return lo + (hi - lo) * self.rng.random()

    def chunk(self, n):
        if n <= 1:
            return n
        if self.rng.random() < self.cfg.get("frag", 0.3):
            mx = self.cfg.get("max_chunk", 0)
            k = self.rng.randint(1, n)
            if mx:
                k = min(k, mx)
            return k
        return n

    def connect(self, key, protocol_factory, family, addr):
        lst = self.listeners.get(key)
        if lst is None:
            return None
        factory, server, sock = lst
        loop = self.loop
        cproto = protocol_factory()
        k = len(self.conns)
        if family == socket.AF_UNIX:
            # like real unnamed unix client sockets: every client's name is the empty string
            c_sock, c_peer, s_sock, s_peer = "", addr, addr, ""
        else:
            if ":" in addr[0]:
                # IPv6: socket names are 4-tuples (host, port, flowinfo, scope_id)
                addr = (addr[0].split("%")[0], addr[1], 0, 2 if "%" in addr[0] else 0)
                eph = (addr[0], 40000 + k, 0, addr[3])
                self.stats["probe:ipv6_connection"] += 1
            else:
                eph = (addr[0], 40000 + k)
            c_sock, c_peer, s_sock, s_peer = eph, addr, addr, eph
        ct = SimTransport(self, loop, cproto, "client", extra={"peername": c_peer, "sockname": c_sock, "socket": None})
        sproto = factory()
        st = SimTransport(self, loop, sproto, "server", server=server,
                          extra={"peername": s_peer, "sockname": s_sock, "socket": None})
        ct.peer, st.peer = st, ct
        try:
            ct.owner_task = asyncio.current_task()
        except RuntimeError:
            ct.owner_task = None
        ct.conn_id = st.conn_id = len(self.conns)
        self.conns.append((ct, st))
        self.stats["connections"] += 1
        loop.call_later(self.latency(), self._accept, sproto, st)
        return ct, cproto

    def _accept(self, sproto, st):
        if st._lost:
            return
        sproto.connection_made(st)


class NetLoop(SimLoop):
    """SimLoop with create_server / create_connection (+unix) implemented over a SimNet."""

    def __init__(self, hash_mask=0, net_seed=0, net_cfg=None):
        super().__init__(hash_mask)
        self.net = SimNet(self, net_seed, net_cfg)

    # -- listening
    def _start_serving(self, protocol_factory, sock, sslcontext=None, server=None, backlog=100,
                       ssl_handshake_timeout=None, ssl_shutdown_timeout=None):
        self.net.listeners[sock.key] = (protocol_factory, server, sock)

    def _stop_serving(self, sock):
        self.net.listeners.pop(sock.key, None)
        sock.close()

    async def create_server(self, protocol_factory, host=None, port=None, *, family=socket.AF_UNSPEC,
                            flags=socket.AI_PASSIVE, sock=None, backlog=100, ssl=None, reuse_address=None,
                            reuse_port=None, ssl_handshake_timeout=None, ssl_shutdown_timeout=None,
                            start_serving=True):
        if ssl is not None or sock is not None:
            raise NotImplementedError("SimNet: ssl/sock not simulated")
        key = ("tcp", str(host), int(port))
        if key in self.net.listeners:
            raise OSError(errno.EADDRINUSE, f"error while attempting to bind on address {(host, port)!r}: address already in use")
        fsock = FakeSocket(socket.AF_INET, key, (str(host), int(port)))
        server = base_events.Server(self, [fsock], protocol_factory, ssl, backlog, ssl_handshake_timeout, ssl_shutdown_timeout)
        if start_serving:
            server._start_serving()
            await tasks.sleep(0)
        return server

    async def create_unix_server(self, protocol_factory, path=None, *, sock=None, backlog=100, ssl=None,
                                 ssl_handshake_timeout=None, ssl_shutdown_timeout=None, start_serving=True):
        if ssl is not None or sock is not None:
            raise NotImplementedError("SimNet: ssl/sock not simulated")
        path = os.fspath(path)
        _check_sun_path(path)
        key = ("unix", os.path.abspath(path))
        if key in self.net.listeners:
            raise OSError(errno.EADDRINUSE, f"Address {path!r} is already in use")
        # like asyncio's create_unix_server: a stale *socket* file is removed first; anything else is in the way
        try:
            import stat
            if stat.S_ISSOCK(os.stat(path).st_mode):
                os.remove(path)
                self.net.stats["probe:stale_socket_removed"] += 1
        except FileNotFoundError:
            pass
        if os.path.exists(path):
            raise OSError(errno.EADDRINUSE, f"Address {path!r} is already in use")
        # bind() creates the socket file
        with open(path, "wb"):
            pass
        self.net.unix_files.append(path)
        fsock = FakeSocket(socket.AF_UNIX, key, path)
        server = base_events.Server(self, [fsock], protocol_factory, ssl, backlog, ssl_handshake_timeout, ssl_shutdown_timeout)
        if start_serving:
            server._start_serving()
            await tasks.sleep(0)
        return server

    # -- connecting
    async def _connect(self, key, protocol_factory, family, addr, missing_exc):
        waiter = self.create_future()
        self.call_later(self.net.latency(), waiter.set_result, None)
        await waiter
        res = self.net.connect(key, protocol_factory, family, addr)
        if res is None:
            self.net.stats["fault:connect_refused"] += 1
            raise missing_exc
        ct, cproto = res
        cproto.connection_made(ct)
        return ct, cproto

    async def create_connection(self, protocol_factory, host=None, port=None, *, ssl=None, family=0, proto=0,
                                flags=0, sock=None, local_addr=None, server_hostname=None,
                                ssl_handshake_timeout=None, ssl_shutdown_timeout=None,
                                happy_eyeballs_delay=None, interleave=None, all_errors=False):
        key = ("tcp", str(host), int(port))
        exc = ConnectionRefusedError(errno.ECONNREFUSED, f"Connect call failed {(host, port)!r}")
        return await self._connect(key, protocol_factory, socket.AF_INET, (str(host), int(port)), exc)

    async def create_unix_connection(self, protocol_factory, path=None, *, ssl=None, sock=None,
                                     server_hostname=None, ssl_handshake_timeout=None, ssl_shutdown_timeout=None):
        path = os.fspath(path)
        _check_sun_path(path)
        if not os.path.exists(path):
            self.net.stats["fault:connect_refused"] += 1
            waiter = self.create_future()
            self.call_later(self.net.latency(), waiter.set_result, None)
            await waiter
            raise FileNotFoundError(errno.ENOENT, "No such file or directory", path)
        key = ("unix", os.path.abspath(path))
        exc = ConnectionRefusedError(errno.ECONNREFUSED, "Connection refused")
        return await self._connect(key, protocol_factory, socket.AF_UNIX, path, exc)
