"""Seeded online generator of pool-simulation runs (swarm style).

The generator looks at the simulation's ledger to pick *meaningful* next steps (a live task to
cancel, a pending gate to open ...) but what it emits is an explicit, self-contained step: the
recorded step list replays without the generator.
"""
from __future__ import annotations

import random

SIZES = [0, 1, 1, 2, 2, 2, 3, 3, 4, 6, None, None]
CB_KINDS = [None, None, "s", "s", "a", "g", "sx", "ax", "gx", "sT", "sm", "am", "so", "sp", "ap", "gp", "sf", "ak", "gk", "sxp", "axp", "sxo", "gxm", "su", "sd", "ad", "gd"]
CB_KINDS_SAFE = [None, "s", "a", "g", "sm"]
ASH = [0, 1, 2, 3, 3, 5, 6]      # payload shapes (4 is the counting iterator of rejected requests)
POINTS = ["ws", "we", "wc", "ecb", "ccb", "it", "fa"]

BASE_W = {
    "spawn": 10, "gate": 22, "gate_x": 2, "gate_c": 1, "run": 14, "idle": 8,
    "cancel": 5, "cancel_group": 4, "cancel_all": 1, "stop": 3,
    "flush": 4, "gather": 1, "until_closed": 1, "lock": 1, "unlock": 1, "bad_spawn": 1,
    "read": 1, "new_pool": 0.2, "resize_idle": 0.5,
}

# per-property emphasis (multipliers on BASE_W) and knobs
PROFILES = {
    "C01": {"w": {"spawn": 1.6, "cancel": 1.2, "flush": 0.8, "gate_c": 3.0, "resize_idle": 6.0}, "sizes": [0, 1, 1, 2, 2, 3, 4, None]},
    "C02": {"w": {"cancel": 1.6, "cancel_group": 1.4, "flush": 1.8, "gate_x": 2.0, "gate_c": 3.0}, "cb": CB_KINDS + ["sf"]},
    "C03": {"w": {"cancel": 1.8, "cancel_group": 1.4, "stop": 1.5, "flush": 1.2}, "cb": ["s", "a", "g", "g", "sx", "sT", None, "sm", "am", "sxm", "so", "sp", "ap", "gp", "sxo", "sf", "ak", "gk", "axk"]},
    "C04": {"w": {"spawn": 1.5, "lock": 3.0, "gather": 2.0, "cancel": 0.7}, "kinds": ["apply", "apply", "apply", "map"], "simple": 0.45, "named": 0.35},
    "C05": {"w": {"spawn": 1.4, "cancel": 1.4, "gate": 1.3}, "kinds": ["map", "starmap", "doublestarmap", "map", "apply"], "simple": 0.0},
    "C06": {"w": {"cancel": 5.0, "flush": 1.5, "cancel_group": 0.6}, "stubborn": 0.35},
    "C07": {"w": {"cancel_group": 4.0, "cancel_all": 3.0, "spawn": 1.4}, "simple": 0.15},
    "C08": {"w": {"gather": 6.0, "until_closed": 4.0, "cancel_group": 1.5, "spawn": 1.3}},
    "C09": {"w": {"bad_spawn": 14.0, "lock": 5.0, "unlock": 4.0, "gather": 3.0, "spawn": 1.3}, "named": 0.4},
    "C10": {"w": {"spawn": 2.0, "cancel_group": 3.0, "cancel_all": 1.5}, "named": 0.5},
    "C11": {"w": {"spawn": 2.0, "flush": 2.0, "new_pool": 12.0, "gather": 4.0}, "pools": [1, 2, 2, 3]},
    "C12": {"w": {"gate_x": 5.0, "gate_c": 4.0, "flush": 2.5, "gather": 3.0}, "cb": [None, "s", "sx", "ax", "gx", "a", "sT", "sxp", "axp", "sxo", "axk", "gxm"], "fail": 0.4, "endx": 0.3, "retx": 0.2, "iterx": 0.15},
    "C13": {"w": {"flush": 7.0, "cancel": 2.0, "cancel_group": 1.5}, "cb": ["g", "g", "a", "s", None, "gx"], "iterx": 0.15},
    "C14": {"w": {"stop": 8.0, "cancel": 2.0, "spawn": 1.5}, "simple": 1.0},
}


class Gen:
    def __init__(self, seed: int, prop: str, clean: bool = True):
        self.rng = random.Random(seed)
        self.prop = prop
        self.prof = PROFILES.get(prop, {})
        self.clean = clean
        rng = self.rng
        w = dict(BASE_W)
        for k, m in self.prof.get("w", {}).items():
            w[k] = w[k] * m
        # swarm: switch off a random subset of optional step kinds
        for k in ("cancel", "cancel_group", "cancel_all", "stop", "flush", "gather", "until_closed",
                  "lock", "unlock", "bad_spawn", "gate_x", "gate_c"):
            if rng.random() < 0.25 and self.prof.get("w", {}).get(k, 0) < 2.0:
                w[k] = 0
        self.w = w
        self.nsteps = rng.choice([6, 10, 16, 24, 36, 50, 70])
        self.max_reqs = rng.choice([1, 2, 3, 4, 6, 8])
        self.reentrant = rng.choice([0.0, 0.0, 0.15, 0.35])
        self.run_ks = rng.choice([[1], [1, 2, 3], [1, 2, 3, 5, 8], [2, 4, 16]])
        self.cb_kinds = self.prof.get("cb", CB_KINDS if rng.random() < 0.5 else CB_KINDS_SAFE)
        self.stubborn = self.prof.get("stubborn", rng.choice([0.0, 0.1, 0.25]))
        self.fail_rate = self.prof.get("fail", rng.choice([0.0, 0.0, 0.15]))
        self.endx = self.prof.get("endx", rng.choice([0.0, 0.05, 0.15]))
        self.named = self.prof.get("named", rng.choice([0.0, 0.2, 0.5]))
        self.retx = self.prof.get("retx", rng.choice([0.0, 0.0, 0.1]))
        self.iterx = self.prof.get("iterx", rng.choice([0.0, 0.0, 0.08]))
        self.label = 0
        self.count = 0
        self.own_iter_cancel = False
        self.followups = []

    # ------------------------------------------------------------------ configuration
    def make_config(self):
        rng = self.rng
        npools = rng.choice(self.prof.get("pools", [1, 1, 1, 1, 2, 2, 3]))
        simple = self.prof.get("simple", 0.3)
        sizes = self.prof.get("sizes", SIZES)
        pools = []
        for i in range(npools):
            cls = "S" if rng.random() < simple else "T"
            p = {"cls": cls, "size": rng.choice(sizes)}
            if rng.random() < 0.4:
                p["name"] = rng.choice(["alpha", "beta", "p"]) + str(i)
            elif rng.random() < 0.15:
                p["name"] = "jobs"          # the same explicit name may be given to several pools
            elif rng.random() < 0.12:
                p["name"] = ""              # an empty name is no name: the pool is named by its index
            if rng.random() < 0.12:
                p["sub"] = 1                # a pool of a factory-made class (same __name__ as other such classes)
            if cls == "S":
                p["fk"] = rng.choice(["sync", "sync", "plain", "pmeth", "wrap", "abc", "part"])
                p["fn"] = rng.randrange(3)
                p["ash"] = rng.choice(ASH)
                p["ecb"] = rng.choice(self.cb_kinds)
                p["ccb"] = rng.choice(self.cb_kinds)
                p["sc"] = [self._script() for _ in range(rng.choice([1, 2, 4]))]
                if p["fk"] in ("sync", "abc", "part") and rng.random() < self.fail_rate:
                    p["fail"] = sorted(rng.sample(range(12), rng.choice([1, 2])))
                    p["fx"] = rng.randrange(5)
            pools.append(p)
        cfg = {"hmask": rng.choice([0, 0, 1, 3, 6, 7, 12, 21]), "pools": pools}
        return self._env_knobs(cfg)

    def _env_knobs(self, cfg):
        """Process-level configuration the application may have chosen: the library's logger enabled at DEBUG, warnings
        treated as errors."""
        rng = self.rng
        if rng.random() < 0.15:
            cfg["loglevel"] = "DEBUG"
        if rng.random() < 0.12:
            cfg["wfilter"] = "error"
        return cfg

    def _script(self):
        rng = self.rng
        s = {"g": rng.choice([0, 1, 1, 1, 2, 3])}
        if rng.random() < self.endx:
            s["end"] = rng.choice(["x", "x", "x", "xg", "xm", "xl", "xl"])
        elif rng.random() < self.retx:
            s["end"] = "rx"
        if rng.random() < self.stubborn:
            s["oc"] = [rng.choice(["s", "s", "r", "x"]) for _ in range(rng.choice([1, 1, 2]))]
            if s["g"] == 0:
                s["g"] = 1
        return s

    # ------------------------------------------------------------------ steps
    def next_step(self, sim):
        if self.count >= self.nsteps or sim.hit_cap:
            return None
        self.count += 1
        rng = self.rng
        if self.followups:
            return self.followups.pop(0)
        for _ in range(8):
            kinds = list(self.w)
            k = rng.choices(kinds, [self.w[x] for x in kinds])[0]
            st = getattr(self, "_g_" + k)(sim)
            if st is not None:
                if self.reentrant and st["op"] not in ("run", "idle", "gate", "read", "new_pool", "bad_pool", "resize_idle") and rng.random() < self.reentrant:
                    st["at"] = [rng.choice(POINTS), rng.choice([1, 1, 2, 3])]
                return st
        return {"op": "run", "n": 1}

    def _pool(self, sim, cls=None):
        cands = [pc for pc in sim.pools if cls is None or pc.cls == cls]
        return self.rng.choice(cands) if cands else None

    def _g_run(self, sim):
        return {"op": "run", "n": self.rng.choice(self.run_ks)}

    def _g_idle(self, sim):
        return {"op": "idle"}

    def _g_new_pool(self, sim):
        rng = self.rng
        if len(sim.pools) >= 5:
            return None
        cls = "S" if rng.random() < 0.3 else "T"
        p = {"cls": cls, "size": rng.choice(SIZES)}
        if rng.random() < 0.25:
            p["name"] = "late" + str(len(sim.pools))
        elif rng.random() < 0.15:
            p["name"] = ""
        if rng.random() < 0.2:
            p["sub"] = 1
        if cls == "S":
            p.update({"fk": "sync", "fn": rng.randrange(3), "ash": rng.choice(ASH), "ecb": rng.choice(CB_KINDS_SAFE),
                      "ccb": rng.choice(CB_KINDS_SAFE), "sc": [self._script()]})
        return {"op": "new_pool", "cfg": p}

    def _g_resize_idle(self, sim):
        cands = [pc for pc in sim.pools if sim._pool_is_empty(pc)]
        if self.prop == "C01" and self.rng.random() < 0.5:
            # no task in flight, but spawners may be waiting for room (size 0, or everything just finished)
            wc = [pc for pc in sim.pools if sim._pool_is_empty(pc, True)]
            if wc:
                return {"op": "resize_idle", "p": self.rng.choice(wc).idx, "v": self.rng.choice([0, 1, 1, 2, 3, None]), "w": 1}
        if not cands:
            return None
        return {"op": "resize_idle", "p": self.rng.choice(cands).idx, "v": self.rng.choice(self.prof.get("sizes", SIZES))}

    def _g_read(self, sim):
        return {"op": "read"}

    def _g_spawn(self, sim, bad=None):
        rng = self.rng
        pc = self._pool(sim)
        if len(sim.reqs) >= self.max_reqs and bad is None:
            return None
        self.label += 1
        st = {"op": "spawn", "p": pc.idx, "r": self.label}
        if pc.cls == "S":
            st["kind"] = "start"
            st["num"] = rng.choice([0, 1, 1, 2, 3, 4, 6])
            if bad == "notcoro":
                return None
            return st
        kind = rng.choice(self.prof.get("kinds", ["apply", "apply", "map", "starmap", "doublestarmap"]))
        st["kind"] = kind
        st["fk"] = rng.choice(["sync", "sync", "sync", "plain", "pmeth", "wrap", "abc", "part"])
        st["fn"] = rng.randrange(3)
        st["ecb"] = rng.choice(self.cb_kinds)
        st["ccb"] = rng.choice(self.cb_kinds)
        st["sc"] = [self._script() for _ in range(rng.choice([1, 2, 3]))]
        if rng.random() < self.named:
            st["gn"] = rng.choice(["g1", "g2", "apply-work-group-0", "map-job-group-1", "apply-work-group-1",
                                   "apply-job-group-1", "starmap-fetch_it-group-0", "start-group-1", "", "", "default"])
        if kind == "apply":
            st["num"] = rng.choice([0, 1, 1, 2, 3, 4, 5, 8])
            st["ash"] = rng.choice(ASH)
            if st["fk"] in ("sync", "abc", "part") and rng.random() < self.fail_rate and st["num"]:
                st["fail"] = sorted(rng.sample(range(st["num"]), min(st["num"], rng.choice([1, 2]))))
                st["fx"] = rng.randrange(5)
        else:
            n = rng.choice([0, 1, 2, 3, 4, 5, 7, 10])
            badp = rng.choice([0.0, 0.0, 0.15, 0.3]) if kind != "map" else 0.0
            emptyp = rng.choice([0.0, 0.0, 0.2])
            oneshot = rng.choice([0.0, 0.0, 0.5]) if kind == "starmap" else 0.0
            strp = rng.choice([0.0, 0.0, 0.3]) if kind == "starmap" else 0.0
            st["elems"] = [1 if rng.random() < badp else (2 if rng.random() < emptyp else (3 if rng.random() < oneshot else
                           (rng.choice([6, 7, 8, 8]) if rng.random() < strp else 0))) for _ in range(n)]
            if kind == "doublestarmap" and rng.random() < 0.25:
                # objects that `**` accepts although they are no Mapping (keys() + __getitem__); for starmap (code 8
                # above): the old sequence protocol, no Iterable
                st["elems"] = [8 if (e == 0 and rng.random() < 0.5) else e for e in st["elems"]]
            if n and rng.random() < self.iterx:
                st["elems"][rng.randrange(n)] = 4        # the iterable raises when it gets here
            st["nc"] = rng.choice([1, 1, 2, 2, 3, 5])
            if rng.random() < 0.3:
                st["itk"] = rng.choice([1, 1, 2])     # a re-iterable container with a length (2: a length that is not the element count)
            if kind == "doublestarmap" and rng.random() < 0.2:
                st["elems"] = [5 if e == 0 else e for e in st["elems"]]     # keyword names like the library's own parameters
            if st["fk"] in ("sync", "abc", "part") and rng.random() < self.fail_rate and n:
                st["fail"] = sorted(rng.sample(range(n), min(n, rng.choice([1, 2]))))
                st["fx"] = rng.randrange(5)
        if bad is not None and kind == "apply" and rng.random() < 0.4:
            st["ash"] = 4            # args given as a one-shot counting iterator (only used for rejected requests)
        if bad == "notcoro":
            st["bad"] = "notcoro"
            st["nck"] = rng.randrange(8)     # (6, 7: callables without __name__ - map variants generate the group name first)
        elif bad == "nc0" and kind != "apply":
            st["nc"] = rng.choice([0, -1, 0.5, 0.999, -0.5])
        return st

    def _g_bad_spawn(self, sim):
        rng = self.rng
        how = rng.choice(["notcoro", "nc0", "dup", "state", "state", "negsize"])
        if how == "negsize":
            return {"op": "bad_pool", "p": self._pool(sim).idx, "v": rng.choice([-1, -2, -100, -0.5, -0.001, float("-inf")])}
        if how == "dup":
            pc = self._pool(sim, "T")
            if pc is None or not pc.live_names:
                return None
            st = self._g_spawn(sim, bad="dup")
            if st is None or st["kind"] == "start":
                return None
            st["p"] = pc.idx
            st["gn"] = rng.choice(list(pc.live_names))
            if "" in pc.live_names and rng.random() < 0.5:
                st["gn"] = ""               # the empty string is a name like any other (round 12: `name or generated`)
            return st
        if how == "state":
            cands = [pc for pc in sim.pools if pc.locked or pc.closed]
            if not cands:
                return None
            st = self._g_spawn(sim, bad="state")
            if st is None:
                return None
            pc = rng.choice(cands)
            if (st["kind"] == "start") != (pc.cls == "S"):
                return None
            st["p"] = pc.idx
            if rng.random() < 0.3:
                st["noloop"] = 1            # ... asked by synchronous code outside any running loop
            return st
        st = self._g_spawn(sim, bad=how)
        if st is not None and how == "notcoro" and rng.random() < 0.2:
            st["noloop"] = 1
        return st

    def _g_gate(self, sim, how=None):
        keys = sim.pending_gates()
        if not keys:
            return None
        st = {"op": "gate", "key": list(self.rng.choice(keys))}
        if how:
            st["how"] = how
        return st

    def _g_gate_x(self, sim):
        keys = [k for k in sim.pending_gates() if k[0] == "w"]
        if not keys:
            return None
        return {"op": "gate", "key": list(self.rng.choice(keys)), "how": "x"}

    def _g_gate_c(self, sim):
        keys = [k for k in sim.pending_gates() if k[0] == "c"]
        if not keys:
            return None
        return {"op": "gate", "key": list(self.rng.choice(keys)), "how": "c"}

    def _task_ref(self, t):
        return ["t", t.req.label, t.k]

    def _g_cancel(self, sim):
        rng = self.rng
        pc = self._pool(sim)
        if not pc.tasks and rng.random() < 0.8:
            return None
        refs = []
        n = rng.choice([1, 1, 1, 2, 2, 3])
        allvalid = rng.random() < 0.6
        live = [t for t in pc.tasks if t.state == "L"] + ([] if self.clean else [t for t in pc.tasks if t.state == "U"])
        for _ in range(n):
            c = rng.random()
            if allvalid or c < 0.5:
                if live:
                    refs.append(self._task_ref(rng.choice(live)))
            elif c < 0.8 and pc.tasks:
                refs.append(self._task_ref(rng.choice(pc.tasks)))
            else:
                refs.append(["raw", rng.choice([-1, -7, 999, 12345, len(pc.tasks), len(pc.tasks) + 1,
                                                None, "3", 7.5, float(rng.randrange(len(pc.tasks) + 1))])])   # ids that are no ints
        if rng.random() < 0.1 and refs:
            refs.append(refs[0])
        if rng.random() < 0.04 and live:
            # a very long id list (repeats allowed), optionally with one bad id at the very end
            refs = [self._task_ref(rng.choice(live)) for _ in range(rng.choice([65, 70, 130]))]
            if rng.random() < 0.7:
                refs.append(["raw", rng.choice([-1, 999])] if not pc.tasks or rng.random() < 0.5 else self._task_ref(rng.choice(pc.tasks)))
        st = {"op": "cancel", "p": pc.idx, "ids": refs}
        if rng.random() < 0.25:
            st["msg"] = rng.choice(["bye", "", "shutdown requested"])
        return st

    def _g_cancel_group(self, sim):
        rng = self.rng
        pc = self._pool(sim)
        reqs = [r for r in pc.reqs]
        if rng.random() < 0.12 or not reqs:
            return {"op": "cancel_group", "p": pc.idx, "name": rng.choice(["nope", "apply-work-group-9", "g1"])}
        live = [r for r in reqs if r.cancelled_seq is None]
        r = rng.choice(live) if live and rng.random() < 0.85 else rng.choice(reqs)
        if pc.cls == "T" and r.cancelled_seq is None and r.gname is not None and not r.spawner_done() and rng.random() < 0.3:
            # the cancelled group's name is taken again AT ONCE, while the old spawner has not wound down yet (whatever it
            # cleans up by name must not hit the new group); sometimes the pool is closed while the new request is at work
            st = self._g_spawn(sim)
            if st is not None and st.get("kind") != "start":
                st["p"] = pc.idx
                st["gn"] = r.gname
                self.followups.append(st)
                if rng.random() < 0.5:
                    self.followups += [{"op": "run", "n": rng.choice([1, 2, 3, 5])}, {"op": "gather", "p": pc.idx, "rex": int(rng.random() < 0.4)}]
        st = {"op": "cancel_group", "p": pc.idx, "r": r.label}
        if rng.random() < 0.25:
            st["msg"] = rng.choice(["bye", "", "group done"])
        return st

    def _g_cancel_all(self, sim):
        pc = self._pool(sim)
        st = {"op": "cancel_all", "p": pc.idx}
        if self.rng.random() < 0.25:
            st["msg"] = "everybody out"
        return st

    def _g_stop(self, sim):
        rng = self.rng
        pc = self._pool(sim, "S")
        if pc is None:
            return None
        if rng.random() < 0.15:
            return {"op": "stop", "p": pc.idx, "all": 1}
        return {"op": "stop", "p": pc.idx, "n": rng.choice([-2, 0, 1, 1, 1, 2, 2, 3, 5, pc.n_run, pc.n_run + 2, 2 ** 63, 10 ** 30])}

    def _g_flush(self, sim):
        return {"op": "flush", "p": self._pool(sim).idx, "rex": int(self.rng.random() < 0.4)}

    def _g_gather(self, sim):
        pc = self._pool(sim)
        if self.count < self.nsteps * 0.4 and self.rng.random() < 0.7:
            return None
        return {"op": "gather", "p": pc.idx, "rex": int(self.rng.random() < 0.3)}

    def _g_until_closed(self, sim):
        return {"op": "until_closed", "p": self._pool(sim).idx}

    def _g_lock(self, sim):
        return {"op": "lock", "p": self._pool(sim).idx}

    def _g_unlock(self, sim):
        return {"op": "unlock", "p": self._pool(sim).idx}


class PhasedGen(Gen):
    """Structured scenarios: (1) requests, (2) some tasks finish / fail / are cancelled so that tasks sit in every
    stage (running, inside a slow cancel callback, ended inside a slow end callback, completely done),
    (3) flush()/gather_and_close()/until_closed() calls are started, (4) everything still pending is released in a
    seeded order with seeded outcomes (return, raise, callback cancelled) while those calls are waiting, (5) final
    flush.  Uniform random runs reach such overlaps rarely; here every run has them."""

    CBS = ["g", "g", "gx", "s", "a", "sx", "ax", None, None, "sm", "sT", "gm", "so", "gp", "ap", "gk", "ak", "su", "sd", "gd"]

    def __init__(self, seed: int, prop: str, clean: bool = True):
        super().__init__(seed, prop, clean)
        rng = self.rng
        self.phase = 0
        self.queue = []
        self.calls = list(rng.choice([["flush"], ["gather"], ["flush", "flush"], ["flush", "gather"], ["wait", "gather"],
                                      ["gather", "gather"], ["gather", "flush"], ["gather", "wait"], ["flush", "wait", "gather"]]))
        self.p_x = rng.choice([0.0, 0.15, 0.3, 0.5])
        self.p_c = rng.choice([0.0, 0.0, 0.15, 0.3])
        self.early = rng.choice([0.3, 0.5, 0.7])
        self.cancel_frac = rng.choice([0.0, 0.2, 0.4])
        self.mid = rng.choice([0.0, 0.1, 0.25])       # extra cancels / flushes while releasing
        self.mid_group = 0.3
        if prop == "C07":
            self.mid = rng.choice([0.1, 0.25, 0.4])
            self.mid_group = 0.7
        self.total = 0
        # several cycles on the same pool: what an earlier cycle left behind (a flush that raised, cancelled groups
        # whose names are used again, rejected requests, swallowed cancellations) is the history of the next one
        self.cycles = rng.choice([1, 1, 2, 3])
        self.cycle = 0
        self.all_calls = self.calls

    def make_config(self):
        rng = self.rng
        cls = "S" if rng.random() < self.prof.get("simple", 0.25) else "T"
        p = {"cls": cls, "size": rng.choice([None, None, 8, 6, 4, 3, 2])}
        if cls == "S":
            p.update({"fk": "sync", "fn": rng.randrange(3), "ash": rng.choice(ASH), "ecb": rng.choice(self.CBS),
                      "ccb": rng.choice(self.CBS), "sc": [self._pscript() for _ in range(3)]})
        return self._env_knobs({"hmask": rng.choice([0, 0, 3, 7]), "pools": [p]})

    def _pscript(self):
        rng = self.rng
        s = {"g": rng.choice([1, 1, 1, 2])}
        if rng.random() < 0.12:
            s["end"] = rng.choice(["x", "x", "rx", "xg", "xm", "xl", "xl"])
        if rng.random() < self.stubborn:
            s["oc"] = [rng.choice(["s", "r", "x"])]
        return s

    def _how(self, key):
        r = self.rng.random()
        if key[0] == "w":
            return "x" if r < self.p_x else None
        return "c" if r < self.p_c else None

    def _pause(self):
        r = self.rng.random()
        if r < 0.45:
            return [{"op": "idle"}]
        if r < 0.8:
            return [{"op": "run", "n": self.rng.choice([1, 1, 2, 3, 5])}]
        return []

    def next_step(self, sim):
        self.total += 1
        if self.total > 140 * self.cycles or sim.hit_cap:
            return None
        while not self.queue:
            if self.phase > 6:
                self.cycle += 1
                if self.cycle >= self.cycles or sim.pools[0].closed:
                    return None
                self.phase = 0
            getattr(self, "_phase%d" % self.phase)(sim)
        return self.queue.pop(0)

    def _gate_step(self, key):
        st = {"op": "gate", "key": list(key)}
        how = self._how(key)
        if how:
            st["how"] = how
        return st

    def _phase0(self, sim):
        rng = self.rng
        pc = sim.pools[0]
        last = self.cycle == self.cycles - 1
        # the pool is only closed in the last cycle
        self.calls = self.all_calls if last else ([c for c in self.all_calls if c == "flush"] or ["flush"])
        if self.cycle and rng.random() < 0.4:
            # between cycles: a request that is rejected, an unknown id, a lock/unlock pair
            self.label += 1
            self.queue.append(rng.choice([
                {"op": "cancel", "p": 0, "ids": [["raw", rng.choice([-1, 999, 0])]]},
                {"op": "cancel_group", "p": 0, "name": "nope"},
                {"op": "lock", "p": 0},
                {"op": "bad_pool", "p": 0, "v": -1}]))
            if self.queue[-1]["op"] == "lock":
                if pc.cls == "S":
                    self.queue.append({"op": "spawn", "p": 0, "r": self.label, "kind": "start", "num": 2})
                else:
                    self.queue.append({"op": "spawn", "p": 0, "r": self.label, "kind": "map", "elems": [0, 0], "nc": 1, "sc": [{"g": 1}]})
                self.queue.append({"op": "unlock", "p": 0})
        for _ in range(rng.choice([1, 2, 2, 3])):
            self.label += 1
            if pc.cls == "S":
                self.queue.append({"op": "spawn", "p": 0, "r": self.label, "kind": "start", "num": rng.choice([1, 2, 3])})
                continue
            kind = rng.choice(["apply", "apply", "map", "starmap"])
            st = {"op": "spawn", "p": 0, "r": self.label, "kind": kind, "fk": rng.choice(["sync", "sync", "plain", "pmeth", "abc", "part"]),
                  "fn": rng.randrange(3), "ecb": rng.choice(self.CBS), "ccb": rng.choice(self.CBS),
                  "sc": [self._pscript() for _ in range(rng.choice([1, 2, 3]))]}
            if kind == "apply":
                st["num"] = rng.choice([1, 2, 3])
                st["ash"] = rng.choice(ASH)
            else:
                st["elems"] = [0] * rng.choice([1, 2, 3, 4])
                st["nc"] = rng.choice([1, 2, 3])
            if rng.random() < 0.3:
                st["gn"] = rng.choice(["g1", "g2", "g1", "apply-work-group-0", "map-job-group-1"])   # names come back in later cycles
            self.queue.append(st)
        self.queue.append({"op": "idle"})
        self.phase = 1

    def _phase1(self, sim):
        rng = self.rng
        pc = sim.pools[0]
        live = [t for t in pc.tasks if t.state == "L"]
        rng.shuffle(live)
        for t in live:
            r = rng.random()
            if r < self.early and t.inv is not None:
                self.queue.append(self._gate_step(("w", t.req.label, t.inv.idx, t.inv.gate_no)))
            elif r < self.early + self.cancel_frac:
                if rng.random() < 0.3 and t.req.kind != "start":
                    self.queue.append({"op": "cancel_group", "p": 0, "r": t.req.label})
                else:
                    self.queue.append({"op": "cancel", "p": 0, "ids": [self._task_ref(t)]})
            if rng.random() < 0.3:
                self.queue += self._pause()
        self.queue += self._pause() or [{"op": "run", "n": 2}]
        self.phase = 2

    def _phase2(self, sim):
        # release some (not all) of the slow callbacks that are open by now
        rng = self.rng
        keys = [k for k in sim.pending_gates() if k[0] == "c"]
        rng.shuffle(keys)
        for k in keys[rng.choice([0, 1, 1, 2, 99]):]:
            self.queue.append(self._gate_step(k))
        self.queue += self._pause()
        self.phase = 3

    def _phase3(self, sim):
        rng = self.rng
        for c in self.calls:
            rex = int(rng.random() < 0.35)
            if c == "flush":
                self.queue.append({"op": "flush", "p": 0, "rex": rex})
            elif c == "gather":
                self.queue.append({"op": "gather", "p": 0, "rex": rex})
            else:
                self.queue.append({"op": "until_closed", "p": 0})
            if rng.random() < 0.6:
                self.queue += self._pause()
        self.phase = 4
        self.idled = False

    def _phase4(self, sim):
        rng = self.rng
        keys = sim.pending_gates()
        if not keys:
            if self.idled:
                self.phase = 5
            else:
                self.idled = True
                self.queue.append({"op": "idle"})
            return
        self.idled = False
        self.queue.append(self._gate_step(rng.choice(keys)))
        self.queue += self._pause()
        if rng.random() < self.mid:
            pc = sim.pools[0]
            live = [t for t in pc.tasks if t.state == "L"]
            r = rng.random()
            if r < 0.5 and live:
                # (round 12: also whole groups - a group cancelled while another task is inside flush()/gather_and_close(),
                #  its tasks still in their slow cancel callbacks when that call returns, siblings waiting for the slots)
                t = rng.choice(live)
                if rng.random() < self.mid_group and t.req.kind != "start":
                    self.queue.append({"op": "cancel_group", "p": 0, "r": t.req.label})
                else:
                    self.queue.append({"op": "cancel", "p": 0, "ids": [self._task_ref(t)]})
            elif r < 0.8:
                self.queue.append({"op": "flush", "p": 0, "rex": int(rng.random() < 0.5)})
            else:
                self.queue.append({"op": "read"})

    def _phase5(self, sim):
        self.queue += [{"op": "idle"}, {"op": "flush", "p": 0, "rex": 1}, {"op": "idle"}, {"op": "read"}]
        self.phase = 6

    def _phase6(self, sim):
        self.phase = 7


class BigGen(Gen):
    """Scale: the same swarm generator with two-digit everything - 10+ requests of the same kind and function (group
    indices >= 10), 10-40 tasks per request (task ids into the hundreds), pool sizes and num_concurrent >= 10,
    stop(n)/cancel with two-digit ids.  Workers mostly finish at once so that the runs stay short in handles."""

    def __init__(self, seed: int, prop: str, clean: bool = True):
        super().__init__(seed, prop, clean)
        rng = self.rng
        self.nsteps = rng.choice([40, 60, 90])
        self.max_reqs = rng.choice([12, 16, 24])
        self.reentrant = rng.choice([0.0, 0.0, 0.1])
        self.w["spawn"] *= 2.5
        self.w["idle"] *= 1.5
        self.w["gate"] *= 1.5

    def make_config(self):
        cfg = super().make_config()
        for p in cfg["pools"][:1]:
            p["size"] = self.rng.choice([None, 10, 11, 12, 16, 25, 3])
        return cfg

    def _script(self):
        s = super()._script()
        if self.rng.random() < 0.7:
            s["g"] = 0 if "oc" not in s else 1
        return s

    def _g_spawn(self, sim, bad=None):
        st = super()._g_spawn(sim, bad)
        if st is None or bad is not None:
            return st
        rng = self.rng
        st["fn"] = 0
        if st["kind"] in ("apply", "start"):
            st["num"] = rng.choice([1, 2, 10, 11, 12, 20, 33])
            if st.get("fail"):
                st["fail"] = [i for i in st["fail"] if i < st["num"]]
        else:
            if rng.random() < 0.6:
                st["kind"] = "map"
            n = rng.choice([2, 10, 11, 12, 25, 40])
            st["elems"] = [0] * n
            st["nc"] = rng.choice([1, 3, 10, 11, 16])
            st.pop("fail", None)
        return st


class ScaleGen(Gen):
    """Directed scale scenarios (unit kind `huge`): one thing is made large - invocations per request (64 ... 1500,
    rarely 4100), elements per map, failing calls / bad elements per request (>= 10, > 100), requests and groups per
    pool (10 ... 140), spawners waiting for room at the same time, pools (12+, two-digit pool indices), tasks that came
    and went before (ids >= 1000), the length / alphabet of group and pool names, stop(n) - around the powers of two and
    ten where batch sizes, caps and fixed-width formats live.  Everything is then drained in a seeded order, optionally
    with a group cancellation in the middle, and closed early / late / never."""

    TEMPLATES = ["apply_many", "apply_many", "map_many", "map_many", "many_requests", "many_requests", "parked_cb",
                 "names", "start_stop", "pools", "equal_bounds", "cb_storm"]
    PARKED = [101, 1000, 1001, 1024, 1100, 4100]
    STORM = [100, 101, 128, 256, 257, 300]
    NAMES = ["x" * 300, "n" * 5000, "名前-группа", "with space", "tab\there", "new\nline", " lead", "trail ",
             "apply-work-group-10", "0", "-", "--help", "a/b\\c", "é" * 64, "g" + "́" * 10]
    LONG_POOL = "ingest-eu-central-1-tenant-0b5e7c1a-93f4-4d2e-8a61-reprocess-"
    COUNTS = [64, 65, 100, 101, 128, 129, 256, 257, 300, 1000, 1001, 1024, 1025, 1100, 1500]

    KS = [10, 33, 63, 64, 65, 99, 100, 101, 127, 128, 129, 140]

    def __init__(self, seed: int, prop: str, clean: bool = True, index: int = None):
        super().__init__(seed, prop, clean)
        rng = self.rng
        self.template = rng.choice(self.TEMPLATES)
        self.index = index
        if index is not None:
            # systematic part: templates and the threshold-sized quantity cycle with the unit index, the rest is seeded
            self.template = self.TEMPLATES[index % len(self.TEMPLATES)]
        self.queue = None
        self.drained = 0
        self.tail = None
        self.asked_old = False
        self.filled = False
        self.mid_cancel = rng.random() < 0.5
        # when the pool is closed: not at all / after everything was drained and flushed / after draining WITHOUT a
        # flush (the pool still remembers every ended task) / early, while most of the work is still pending
        self.close_mode = rng.choice(["none", "flushed", "unflushed", "early", "early"])
        self.n = rng.choice(self.COUNTS) if rng.random() > 0.04 else 4100
        self.k = rng.choice(self.KS)
        if index is not None:
            j = index // len(self.TEMPLATES)
            self.k = self.KS[j % len(self.KS)]
            if rng.random() > 0.04:
                self.n = self.COUNTS[j % len(self.COUNTS)]
        if self.template == "many_requests" and rng.random() < 0.4:
            self.close_mode = "early"
        # an early failure, long before the bulk of the work: flush()/gather_and_close() must still raise it at the end
        self.pre_fail = self.template in ("apply_many", "map_many", "many_requests") and rng.random() < 0.3

    def make_config(self):
        rng = self.rng
        t = self.template
        cb = rng.choice([None, "s", "a"])
        if t == "start_stop":
            p = {"cls": "S", "size": rng.choice([None, 64, 100, 12]), "fk": "sync", "fn": 0, "ash": rng.choice(ASH), "ecb": cb,
                 "ccb": rng.choice([None, "s"]), "sc": [{"g": 1}]}
            return {"hmask": 0, "pools": [p]}
        if t == "pools":
            pools = [{"cls": "T", "size": rng.choice([None, 2, 3])} for _ in range(12)]
            if rng.random() < 0.5:
                pools[0]["name"] = self.LONG_POOL + "high"
                pools[1]["name"] = self.LONG_POOL + "low"
            return {"hmask": rng.choice([0, 5]), "many_pools": True, "pools": pools}
        size = {"apply_many": rng.choice([None, None, 1, 4, 10, 64, 100, 128]), "map_many": rng.choice([None, None, 1, 4, 10, 100]),
                "many_requests": rng.choice([None, None, None, 1, 2]), "names": rng.choice([None, 2]), "parked_cb": 2, "cb_storm": None,
                "equal_bounds": rng.choice([10, 11, 16, 32])}[t]
        p = {"cls": "T", "size": size}
        self.assign = None
        if t not in ("parked_cb", "equal_bounds") and (self.prop == "C15" or rng.random() < 0.15):
            # the size is assigned to the still empty pool instead of being given to the constructor
            self.assign = size
            p["size"] = rng.choice([None, 1, 7])
        if t == "names" and rng.random() < 0.5:
            p["name"] = self.LONG_POOL + rng.choice(["high", "low"])
        return self._env_knobs({"hmask": rng.choice([0, 3]), "pools": [p]})

    def _scripts(self, n, gated):
        rng = self.rng
        base = {"g": 1} if gated else {"g": 0}
        scs = [dict(base) for _ in range(rng.choice([1, 3, 7]))]
        if rng.random() < 0.3:
            scs[rng.randrange(len(scs))]["end"] = "x"          # some of the many tasks fail
        return scs

    def _initial(self, sim):
        rng = self.rng
        t = self.template
        q = []
        cb = rng.choice([None, "s", "a"])
        n = self.n
        if getattr(self, "assign", None) is not None or (getattr(self, "assign", 0) is None and self.prop == "C15" and t not in ("start_stop", "pools", "parked_cb", "equal_bounds")):
            q.append({"op": "resize_idle", "p": 0, "v": self.assign})
        if self.pre_fail:
            q += [{"op": "spawn", "p": 0, "r": 800, "kind": "apply", "fk": "sync", "num": 1, "sc": [{"g": 0, "end": "x"}]}, {"op": "idle"}]
        if t == "cb_storm":
            # hundreds of tasks inside a suspending cancel (and end) callback at the same time
            m = self.STORM[(self.index // len(self.TEMPLATES)) % len(self.STORM)] if self.index is not None else rng.choice(self.STORM)
            q += [{"op": "spawn", "p": 0, "r": 1, "kind": rng.choice(["apply", "map"]), "fk": "sync", "num": m, "elems": [0] * m, "nc": m,
                   "ccb": "g", "ecb": rng.choice([None, "s", "g"]), "sc": [{"g": 1}]},
                  {"op": "idle"}, {"op": "cancel_all", "p": 0}, {"op": "idle"}, {"op": "read"}]
        elif t == "apply_many":
            gated = rng.random() < 0.5 and n <= 1100
            st = {"op": "spawn", "p": 0, "r": 1, "kind": "apply", "fk": "sync", "num": n, "ash": rng.choice(ASH), "ecb": cb,
                  "ccb": rng.choice([None, "s"]), "sc": self._scripts(n, gated)}
            if rng.random() < 0.25:
                st["fail"] = sorted(rng.sample(range(min(n, 60)), rng.choice([10, 11, 12])))     # >= 10 failing calls
                st["fx"] = rng.randrange(5)
            q.append(st)
        elif t == "map_many":
            kind = rng.choice(["map", "starmap", "doublestarmap"])
            gated = rng.random() < 0.5 and n <= 1100
            elems = [0] * n
            r = rng.random()
            if kind != "map" and r < 0.2 and n <= 1100:
                elems = [1 if i % 2 else 0 for i in range(n)]                 # more than 100 bad elements when n > 200
            elif kind != "map" and r < 0.4:
                for i in rng.sample(range(min(n, 60)), rng.choice([10, 12])):   # >= 10 bad elements
                    elems[i] = 1
            st = {"op": "spawn", "p": 0, "r": 1, "kind": kind, "fk": "sync", "elems": elems,
                  "nc": rng.choice([1, 10, 64, 100, n]), "ecb": cb, "itk": rng.choice([0, 1]), "sc": self._scripts(n, gated)}
            if rng.random() < 0.15:
                st["fail"] = sorted(rng.sample(range(min(n, 60)), 11))
            q.append(st)
        elif t == "many_requests":
            k = self.k                     # (the request after these is the k+1-th)
            kinds = rng.choice([["map"], ["apply"], ["apply", "map"]])
            blocked = sim.pools[0].size is not None
            g = 1 if blocked else rng.choice([0, 0, 1])
            for i in range(k):
                q.append({"op": "spawn", "p": 0, "r": i + 1, "kind": rng.choice(kinds), "fk": "sync", "num": 1,
                          "elems": [0], "nc": 1, "ecb": cb, "sc": [{"g": g}]})
                if rng.random() < 0.1:
                    q.append({"op": "run", "n": rng.choice([1, 3])})
            if not blocked:
                # the k+1-th request of a never-flushed pool is a long one
                q.append({"op": "spawn", "p": 0, "r": 903, "kind": rng.choice(["map", "map", "apply"]), "fk": "sync", "elems": [0] * 6, "nc": 2,
                          "num": 3, "sc": [{"g": 1}]})
                # a long-lived pool with 100+ finished groups: flush, then rejected requests must change nothing
                q.append({"op": "idle"})
                if rng.random() < 0.5:
                    q += [{"op": "flush", "p": 0, "rex": 1}, {"op": "idle"}]
                q.append({"op": "lock", "p": 0})
                q.append({"op": "spawn", "p": 0, "r": 900, "kind": "map", "fk": "sync", "elems": [0, 0], "nc": 1, "sc": [{"g": 1}]})
                q.append({"op": "spawn", "p": 0, "r": 901, "kind": "apply", "fk": "sync", "num": 1, "sc": [{"g": 1}]})
                q += [{"op": "unlock", "p": 0}, {"op": "read"}]
                q.append({"op": "spawn", "p": 0, "r": 902, "kind": "map", "fk": "sync", "elems": [0] * 6, "nc": 2, "sc": [{"g": 1}]})
        elif t == "parked_cb":
            m = self.PARKED[(self.index // len(self.TEMPLATES)) % len(self.PARKED)] if self.index is not None else rng.choice(self.PARKED[:-1])
            q += [{"op": "spawn", "p": 0, "r": 1, "kind": "apply", "fk": "sync", "num": 1, "ccb": "g", "ecb": cb, "sc": [{"g": 1}]},
                  {"op": "idle"}, {"op": "cancel", "p": 0, "ids": [["t", 1, 0]]}, {"op": "idle"},
                  {"op": "spawn", "p": 0, "r": 2, "kind": "map", "fk": "sync", "elems": [0] * m, "nc": rng.choice([1, 2]), "sc": [{"g": 0}]},
                  {"op": "idle"}, {"op": "read"}]
            if rng.random() < 0.5:
                q += [{"op": "flush", "p": 0, "rex": 1}, {"op": "run", "n": 5}, {"op": "read"}]
            q += [{"op": "gate", "key": ["c", "ccb", 1, 0]}, {"op": "idle"}, {"op": "read"}]
            # and then the pool is filled to its size again
            q += [{"op": "spawn", "p": 0, "r": 3, "kind": "apply", "fk": "sync", "num": 3, "sc": [{"g": 1}]}, {"op": "idle"}, {"op": "read"}]
        elif t == "names":
            names = rng.sample(self.NAMES, rng.choice([2, 4, 6]))
            for i, nm in enumerate(names):
                q.append({"op": "spawn", "p": 0, "r": i + 1, "kind": rng.choice(["apply", "map", "starmap"]), "fk": "sync", "num": 2,
                          "elems": [0, 0, 0], "nc": 2, "gn": nm, "ecb": cb, "ccb": rng.choice([None, "s"]), "sc": [{"g": 1}]})
            q.append({"op": "idle"})
            q.append({"op": "cancel_group", "p": 0, "r": rng.randrange(len(names)) + 1})
            q.append({"op": "spawn", "p": 0, "r": 90, "kind": "apply", "fk": "sync", "num": 1, "gn": names[0], "sc": [{"g": 1}]})  # duplicate or re-use
        elif t == "start_stop":
            n = rng.choice([12, 64, 100, 130, 300, 435])
            if rng.random() < 0.4:
                # a long-lived pool: ~1000 tasks have come and gone, so the ids of what runs now have four digits
                q += [{"op": "spawn", "p": 0, "r": 50, "kind": "start", "num": rng.choice([95, 995, 1000, 1020]), "sc": [{"g": 0}]}, {"op": "idle"}]
                if rng.random() < 0.6:
                    q += [{"op": "flush", "p": 0, "rex": 1}, {"op": "idle"}]
                n = rng.choice([3, 8, 12, 64])
            q += [{"op": "spawn", "p": 0, "r": 1, "kind": "start", "num": n}, {"op": "idle"}]
            for k in (rng.choice([3, 10, 11, 63, 64, 257, 300]), rng.choice([1, 10, 99]), 10 ** 9):
                q += [{"op": "stop", "p": 0, "n": k}, {"op": "idle"}]
                if rng.random() < 0.5:
                    q.append({"op": "spawn", "p": 0, "r": 10 + k % 7, "kind": "start", "num": rng.choice([1, 10, 11])})
        elif t == "pools":
            lab = 0
            for p in range(12):
                for _ in range(rng.choice([1, 2])):
                    lab += 1
                    q.append({"op": "spawn", "p": p, "r": lab, "kind": rng.choice(["apply", "map"]), "fk": "sync", "num": 2,
                              "elems": [0, 0], "nc": 1, "ecb": cb, "sc": [{"g": 1}]})
            q.append({"op": "new_pool", "cfg": {"cls": "T", "size": 2}})
            q.append({"op": "new_pool", "cfg": {"cls": "S", "size": 2, "fk": "sync", "fn": 0, "ash": 0, "ecb": None, "ccb": None, "sc": [{"g": 1}]}})
        else:  # equal_bounds: num_concurrent == pool size == number of elements (and one off on each side)
            s = sim.pools[0].size
            for i, d in enumerate(rng.sample([(0, 0), (1, 0), (0, 1), (-1, 0), (0, -1)], 3)):
                q.append({"op": "spawn", "p": 0, "r": i + 1, "kind": "map", "fk": "sync", "elems": [0] * (s + d[0]), "nc": s + d[1],
                          "ecb": cb, "sc": [{"g": 1}]})
                q.append({"op": "idle"})
        q.append({"op": "idle"})
        if self.close_mode == "early" and t not in ("pools", "parked_cb"):
            q += [{"op": "until_closed", "p": 0}, {"op": "gather", "p": 0, "rex": int(rng.random() < 0.5)}, {"op": "run", "n": 3}]
        return q

    def _old_ids(self, sim):
        """cancel() of ids that ended long ago (and of a mix with a running one): the answer must not depend on how many
        tasks have ended since."""
        rng = self.rng
        out = []
        pc = sim.pools[0]
        if len(pc.tasks) >= 20:
            for _ in range(3):
                t = rng.choice(pc.tasks[:max(1, len(pc.tasks) // 2)])
                refs = [self._task_ref(t)]
                if rng.random() < 0.5:
                    refs.append(self._task_ref(rng.choice(pc.tasks)))
                out.append({"op": "cancel", "p": 0, "ids": refs})
            out.append({"op": "read"})
        return out

    def next_step(self, sim):
        if sim.hit_cap:
            return None
        rng = self.rng
        if self.queue is None:
            self.queue = self._initial(sim)
        if self.queue:
            return self.queue.pop(0)
        if self.tail is None and not self.asked_old and rng.random() < 0.3:
            self.asked_old = True
            self.queue = self._old_ids(sim)
            if self.queue:
                return self.queue.pop(0)
        if self.tail is None:
            keys = sim.pending_gates()
            if keys and self.drained < 5000:
                self.drained += 1
                if self.mid_cancel and self.drained == 1 + len(keys) // 3:
                    # a cancellation in the middle of the large request(s)
                    pc = sim.pools[0]
                    live = [r for r in pc.reqs if r.cancelled_seq is None and r.kind != "start"]
                    self.mid_cancel = False
                    if live and rng.random() < 0.7:
                        return {"op": "cancel_group", "p": 0, "r": rng.choice(live).label}
                    return {"op": "cancel_all", "p": 0}
                key = rng.choice(keys) if rng.random() < 0.7 else keys[0]
                st = {"op": "gate", "key": list(key)}
                if rng.random() < 0.03 and key[0] == "w":
                    st["how"] = "x"
                few = len(keys) < 40
                self.queue.append({"op": "idle"} if rng.random() < (0.5 if few else 0.03) else {"op": "run", "n": rng.choice([1, 2, 5])})
                return st
            self.tail = [{"op": "idle"}, {"op": "read"}] + self._old_ids(sim)
            pc = sim.pools[0]
            if pc.size is not None and 0 < pc.size <= 128 and not pc.closed and not self.filled and self.template != "pools":
                # fill the pool to its size once more: a slot lost on the way shows as is_full with too few running
                self.filled = True
                self.tail = None
                self.queue += [{"op": "spawn", "p": 0, "r": 990, "kind": "start" if pc.cls == "S" else "apply", "fk": "sync",
                                "num": pc.size + 1, "sc": [{"g": 1}]}, {"op": "idle"}, {"op": "read"}]
                return self.queue.pop(0)
            rex0 = 0 if self.pre_fail else 1
            if self.close_mode == "unflushed":
                self.tail += [{"op": "gather", "p": 0, "rex": int(rng.random() < 0.5) if not self.pre_fail else 0}, {"op": "idle"}]
            else:
                self.tail += [{"op": "flush", "p": 0, "rex": rex0}, {"op": "idle"}, {"op": "read"}, {"op": "flush", "p": 0, "rex": 1}, {"op": "idle"}]
                if self.close_mode == "flushed":
                    self.tail += [{"op": "gather", "p": 0, "rex": 1}, {"op": "idle"}]
        if self.tail:
            return self.tail.pop(0)
        return None


class TSweepGen(Gen):
    """Threshold placement sweep: one request is driven, task by task, up to the point where the pool is about to start
    its K-th task (K around the powers of two and ten); then one running task is let go and a cancellation of the group
    (or of everything) is placed `offset` handles later - one run per offset - i.e. at every boundary of the few loop
    iterations in which the K-th start happens.  Afterwards the rest is drained; the capacity probe closes the run."""

    KS = [64, 100, 128, 256, 1000, 1024]

    def __init__(self, seed, prop, K, offset, variant):
        super().__init__(seed, prop, True)
        self.K, self.offset, self.variant = K, offset, variant
        self.stage = 0
        self.queue = []

    def make_config(self):
        rng = self.rng
        size = rng.choice([1, 2, 3])
        if self.variant == 2:
            p = {"cls": "S", "size": size, "fk": "sync", "fn": 0, "ash": 0, "ecb": rng.choice([None, "s"]), "ccb": None, "sc": [{"g": 1}]}
        else:
            p = {"cls": "T", "size": size}
        return {"hmask": 0, "pools": [p]}

    def next_step(self, sim):
        if sim.hit_cap:
            return None
        if self.queue:
            return self.queue.pop(0)
        pc = sim.pools[0]
        rng = self.rng
        if self.stage == 0:
            self.stage = 1
            n = self.K + 6
            if self.variant == 2:
                st = {"op": "spawn", "p": 0, "r": 1, "kind": "start", "num": n}
            elif self.variant == 1:
                st = {"op": "spawn", "p": 0, "r": 1, "kind": "map", "fk": "sync", "elems": [0] * n, "nc": pc.size, "sc": [{"g": 1}],
                      "ecb": rng.choice([None, "s"])}
            else:
                st = {"op": "spawn", "p": 0, "r": 1, "kind": "apply", "fk": "sync", "num": n, "sc": [{"g": 1}], "ecb": rng.choice([None, "s"])}
            self.queue.append({"op": "idle"})
            return st
        keys = [k for k in sim.pending_gates() if k[0] == "w"]
        if self.stage == 1:
            if len(pc.tasks) < self.K - 1 and keys:
                self.queue.append({"op": "idle"})
                return {"op": "gate", "key": list(keys[0])}
            self.stage = 2
            if keys:
                if self.offset:
                    self.queue.append({"op": "run", "n": self.offset})
                self.queue.append({"op": "cancel_group", "p": 0, "r": 1} if rng.random() < 0.7 else {"op": "cancel_all", "p": 0})
                self.queue.append({"op": "idle"})
                return {"op": "gate", "key": list(keys[0])}
        if self.stage == 2:
            if keys:
                self.queue.append({"op": "idle"})
                return {"op": "gate", "key": list(keys[0])}
            self.stage = 3
            # fill the pool to its size once more: a slot lost on the way shows as is_full with too few running
            self.queue += [{"op": "spawn", "p": 0, "r": 2, "kind": "start" if pc.cls == "S" else "apply", "fk": "sync",
                            "num": pc.size + 1, "sc": [{"g": 1}]}, {"op": "idle"}, {"op": "read"}]
            return {"op": "idle"}
        if self.stage == 3:
            if keys:
                self.queue.append({"op": "idle"})
                return {"op": "gate", "key": list(keys[0])}
            self.stage = 4
        return None
