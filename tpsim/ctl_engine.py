"""Engine for the control-server properties C16..C19."""
from __future__ import annotations

import asyncio
import copy
import inspect
import itertools
import os
import json
import random
import re

from .ctlsim import CtlSim, BLOCKING
from .shrink import shrink
from .util import subseed, known_entry

BUDGET = {"quick": 60, "thorough": 600}
CHUNK = {"quick": 6, "thorough": 12}
QUICK_N = {"C16": 72, "C17": 600, "C18": 600, "C19": 700}
EOLS = ["\n", "\n", "\n", "\r\n", "\r\n", " \n", "\t\n", " \r\n"]
WIDTHS = [1, 2, 5, 10, 20, 40, 80, 120, 200, 500]
W = "tpsim.ctlworkers."


def net_cfg(rng, frag=None):
    return {"frag": rng.choice([0.0, 0.3, 0.7, 1.0]) if frag is None else frag,
            "max_chunk": rng.choice([0, 0, 1, 3, 16]),
            "lat": rng.choice([(0.001, 0.002), (0.001, 0.05), (0.0, 0.5)]),
            "hi": rng.choice([65536, 65536, 2048, 256])}


def base_config(rng, cls=None, frag=None):
    return {"transport": rng.choice(["tcp", "unix"]), "cls": cls or rng.choice(["T", "T", "S"]),
            "size": rng.choice([None, None, 1, 2, 3]), "hmask": rng.choice([0, 3, 5]),
            "net_seed": rng.randrange(1 << 30), "net": net_cfg(rng, frag), "name": "p",
            "host": rng.choice(["127.0.0.1", "127.0.0.1", "::1", "localhost", "fe80::1%eth0"]),
            "loglevel": rng.choice([None, None, None, None, "DEBUG", "INFO"]), "wfilter": rng.choice([None, None, None, "error"])}


# ----------------------------------------------------------------------------- members of a class
def public_members(cls):
    out = {}
    for name in dir(cls):
        if name.startswith("_"):
            continue
        m = inspect.getattr_static(cls, name)
        if inspect.isfunction(m):
            out[name] = "method"
        elif isinstance(m, property):
            out[name] = "property"
        elif isinstance(m, staticmethod):
            out[name] = "method"
    return out


def private_members(cls):
    return [n for n in dir(cls) if n.startswith("_") and not n.startswith("__")
            and (inspect.isfunction(inspect.getattr_static(cls, n)) or isinstance(inspect.getattr_static(cls, n), property))]


# ============================================================================= C16
def bigreply_run(prop, transport, seed):
    """A reply larger than SESSION_MSG_BYTES (100 KiB) - the boundary in internals/constants.py - and what comes after it."""
    rng = random.Random(seed)
    cfg = base_config(rng, "S", frag=rng.choice([0.0, 0.5]))
    cfg.update({"transport": transport, "size": None})
    steps = [{"op": "start"}, {"op": "idle"}, {"op": "connect", "c": 1, "w": 80}, {"op": "connect", "c": 2, "w": 80}, {"op": "idle"},
             {"op": "line", "c": 1, "text": "start 17000"}, {"op": "idle"},
             {"op": "line", "c": 1, "text": "stop-all"}, {"op": "idle"},
             {"op": "line", "c": 1, "text": "num-running"}, {"op": "idle"}, {"op": "expect_number", "c": 1, "i": 2},
             {"op": "line", "c": 1, "text": "no-such-command-tok1x3q"}, {"op": "line", "c": 2, "text": "num-running"}, {"op": "idle"},
             {"op": "expect_number", "c": 2, "i": 0}]
    run = {"prop": prop, "config": cfg, "steps": steps, "seed": seed, "bigreply": True,
           "tokens": {"1:3": "tok1x3q"},
           "final": ["bigreply"] + (["c16"] if prop == "C16" else ["sessions_clean", "reply_counts", "tokens"])}
    return run


def _final_bigreply(sim):
    c = sim.clients.get(1)
    reps = c.replies() if c else []
    if len(reps) > 1:
        sim.stats["probe:reply_over_session_msg_bytes"] += int(len(reps[1]) > 100 * 1024)
    prop = sim.run["prop"]
    if len(reps) >= 4 and "no-such-command-tok1x3q" not in reps[3]:
        sim.violate(prop, "reply_after_big_reply", f"after a >100 KiB reply an unknown command was answered with {reps[3][:60]!r}")


CtlSim._final_bigreply = lambda self: _final_bigreply(self)


def c16_run(rng, stock, cls, width, transport):
    cfg = base_config(rng, cls)
    cfg["stock"] = stock
    cfg["transport"] = transport
    if transport == "unix" and rng.random() < 0.3:
        cfg["relpath"] = 1      # relative socket path, deep working directory (round 13)
    steps = [{"op": "start"}, {"op": "idle"}]
    hist = None if stock else rng.choice([None, None, None, "restart", "restart_early", "abrupt"])
    if hist == "restart_early" and transport != "tcp":
        hist = "restart"
    if hist in ("restart", "restart_early"):
        # the server had an earlier life: a client of that life, a stop, and serve_forever() again on the same object
        steps += [{"op": "connect", "c": 90, "w": 80}, {"op": "idle"}, {"op": "line", "c": 90, "text": "num-running"}, {"op": "idle"},
                  {"op": "stop"}, {"op": "idle"}]
        if hist == "restart":
            steps += [{"op": "close", "c": 90, "how": "close"}, {"op": "idle"}, {"op": "restart"}, {"op": "idle"}]
        else:
            steps += [{"op": "restart", "early": 1}, {"op": "idle"}]
    elif hist == "abrupt":
        # earlier sessions that ended abruptly / never completed their handshake
        steps += [{"op": "connect", "c": 90, "w": 80}, {"op": "connect", "c": 91, "w": 80, "hs": rng.choice(["garbage", "none", "partial"])},
                  {"op": "idle"}, {"op": "line", "c": 90, "text": "no-such-command"}, {"op": "idle"},
                  {"op": "close", "c": 90, "how": rng.choice(["abort", "eof"])}, {"op": "close", "c": 91, "how": "abort"}, {"op": "idle"}]
    nclients = rng.choice([1, 2, 2, 3])
    same = rng.random() < 0.6
    for i in range(nclients):
        steps.append({"op": "connect", "c": i + 1, "w": width if (i == 0 or same) else rng.choice(WIDTHS + [rng.randint(1, 300)]),
                      "hs": rng.choice(["ok", "ok", "extra"])})
        if rng.random() < 0.5:
            steps.append({"op": "run", "n": rng.choice([1, 3, 10])})
    steps.append({"op": "idle"})
    if hist == "restart_early":
        # the client of the first life leaves only now: the first serving task completes while the second life serves
        steps += [{"op": "close", "c": 90, "how": "close"}, {"op": "idle"}, {"op": "connect", "c": nclients + 1, "w": width}, {"op": "idle"}]
    if cls.endswith("x") and rng.random() < 0.5:
        # a second server in the same process for a DIFFERENT class that has the same module and qualified name
        steps += [{"op": "start2", "cfg": {"cls": cls, "variant": 1}}, {"op": "idle"},
                  {"op": "connect", "c": 11, "w": width, "srv": 2}, {"op": "idle"}]
    return {"prop": "C16", "config": cfg, "steps": steps, "final": ["c16"], "help_flag": rng.choice(["-h", "--help"])}


def _final_c16(sim):
    _c16_check(sim, 1, sim.pool, sim.pool_cls)
    if getattr(sim, "pool2", None) is not None and not sim.viol:
        sim.stats["probe:second_server_same_qualname"] += 1
        _c16_check(sim, 2, sim.pool2, sim.pool2_cls)


def _c16_check(sim, srv, pool, cls):
    pub = public_members(cls)
    flag = sim.run.get("help_flag", "-h")
    expected_name = (str(pool) + "\n").encode()
    ok_clients = []
    for c in [c for c in sim.clients.values() if c.srv == srv]:
        if c.gone or c.bad_handshake or c.label >= 90:
            continue          # clients of the run's earlier history (gone, or deliberately malformed handshakes)
        writes = c.server_writes()
        if not c.connected:
            sim.violate("C16", "connect_failed", f"client {c.label} could not connect: {c.connect_error!r}")
            continue
        if not writes:
            exc = [(m, type(e).__name__, str(e)) for m, e, t in sim.session_exceptions() if t is c.st]
            sim.violate("C16", "handshake_unanswered", f"client {c.label}: no reply to the handshake (session: {exc})")
            continue
        if writes[0] != expected_name or not bytes(c.recv).startswith(expected_name):
            sim.violate("C16", "handshake_reply", f"client {c.label}: handshake answered with {writes[0]!r}, expected {expected_name!r}")
            continue
        ok_clients.append(c)
    if not ok_clients or sim.viol:
        return
    # ask for help on every member, spread over the connected clients, then the top-level help
    names = sorted(pub)
    asked = {}
    for i, name in enumerate(names):
        c = ok_clients[i % len(ok_clients)]
        cmd = name.replace("_", "-")
        asked.setdefault(c.label, []).append((len(c.lines), cmd))
        sim.exec_step({"op": "line", "c": c.label, "text": f"{cmd} {flag}"})
        if i % 5 == 4:
            sim.run_to_idle()
    top = ok_clients[0]
    top_idx = len(top.lines)
    sim.exec_step({"op": "line", "c": top.label, "text": flag})
    sim.run_to_idle()
    sim.stats["c16_members_checked"] += len(names)
    for c in ok_clients:
        replies = c.replies()
        for idx, cmd in asked.get(c.label, ()):
            if idx >= len(replies):
                sim.violate("C16", "help_unanswered", f"'{cmd} {flag}' got no reply")
                return
            rep = replies[idx]
            if not re.match(r"usage: " + re.escape(cmd) + r"(\s|$)", rep):
                sim.violate("C16", "member_help", f"'{cmd} {flag}' answered with {rep[:70]!r}")
                return
            # every parameter of the method is offered: positionals by name, optionals as --long-option
            mem = inspect.getattr_static(cls, cmd.replace("-", "_"))
            if inspect.isfunction(mem):
                squeezed = re.sub(r"\s+", "", rep)
                for pname, par in inspect.signature(mem).parameters.items():
                    if pname == "self":
                        continue
                    want = pname if par.default is inspect.Parameter.empty else "--" + pname.replace("_", "-")
                    if want not in squeezed:
                        sim.violate("C16", "member_parameters", f"'{cmd} {flag}' does not offer parameter {pname!r}: {rep[:80]!r}")
                        return
            # "... with -h/--help describing it": the first line of the member's (possibly inherited) docstring
            member = inspect.getattr_static(cls, cmd.replace("-", "_"))
            target = member.fget if isinstance(member, property) else (member.__func__ if isinstance(member, staticmethod) else member)
            if not (isinstance(member, property) and member.fset is not None):
                doc = inspect.getdoc(getattr(cls, cmd.replace("-", "_"))) if not isinstance(member, property) else inspect.getdoc(member)
                if doc:
                    first = doc.strip().split("\n", 1)[0].strip()
                    squeeze = lambda t: re.sub(r"\s+", "", t)
                    if squeeze(first.replace("%%", "%")) not in squeeze(rep):
                        sim.violate("C16", "member_description", f"'{cmd} {flag}' does not describe the member: {first!r} missing from {rep[:90]!r}")
                        return
    # "available as a command": the extra members that need no argument are also CALLED once (they are harmless), each
    # must be answered at once - also the synchronous one that hands back a pending awaitable - and so must what follows
    callable_now = [n for n in ("drained", "blank_doc", "slots_for", "drain", "extra_ro", "spaced_doc") if n in pub]
    if callable_now:
        first = len(top.lines)
        for n in callable_now:
            sim.exec_step({"op": "line", "c": top.label, "text": n.replace("_", "-")})
        sim.exec_step({"op": "line", "c": top.label, "text": "num-running"})
        sim.run_to_idle()
        got = top.replies()
        if len(got) < len(top.lines):
            sim.violate("C16", "member_call_unanswered", f"command {top.lines[len(got)].strip()!r} (a public member needing no argument) was not answered: "
                        f"{len(got) - first} replies for {len(callable_now) + 1} lines")
            return
        if not re.match(r"\d+\n?$", got[-1]):
            sim.violate("C16", "member_call_reply", f"'num-running' after the member calls answered with {got[-1][:60]!r}")
            return
        sim.stats["c16_members_called"] += len(callable_now)
    replies = top.replies()
    if top_idx >= len(replies):
        sim.violate("C16", "help_unanswered", f"top-level '{flag}' got no reply")
        return
    rep = replies[top_idx]
    listed = set(re.findall(r"^\s{2,}([A-Za-z][A-Za-z0-9-]*)(?=\s|$)", rep, re.M))
    want = {n.replace("_", "-") for n in names}
    missing = want - listed
    if missing:
        sim.violate("C16", "command_missing", f"top-level help does not list {sorted(missing)}")
    for p in private_members(cls):
        d = p.replace("_", "-")
        if re.search(r"^\s+" + re.escape(d) + r"(\s|$)", rep, re.M) or d.lstrip("-") in (listed - want):
            sim.violate("C16", "private_exposed", f"non-public member {p} is exposed as a command")
            break
    # a non-public member must not be callable either
    priv = private_members(cls)
    if priv:
        p = priv[len(names) % len(priv)].replace("_", "-")
        i = len(top.lines)
        sim.exec_step({"op": "line", "c": top.label, "text": p.lstrip("-") if p.lstrip("-") not in want else "zz-" + p})
        sim.run_to_idle()
        replies = top.replies()
        if i < len(replies) and "invalid choice" not in replies[i]:
            sim.violate("C16", "private_callable", f"command {p!r} derived from a non-public member was accepted: {replies[i][:60]!r}")


CtlSim._final_c16 = lambda self: _final_c16(self)


# ============================================================================= command vocabulary (C17/C18)
def lit(v):
    return repr(v).replace(" ", "")


def freeze(v):
    if isinstance(v, tuple):
        return {"$tuple": [freeze(x) for x in v]}
    if isinstance(v, dict):
        return {"$dict": {k: freeze(x) for k, x in v.items()}}
    if isinstance(v, list):
        return [freeze(x) for x in v]
    return v


def gen_command(rng, cls, short=False):
    """A well-formed command: (text, direct-call description)."""
    F = {"$func": "work"}
    props = ["is-full", "is-locked", "num-cancelled", "num-ended", "num-running", "pool-size"]
    if cls == "S":
        choices = ["start", "start", "start", "stop", "stop", "stop-all", "func-name"]
    else:
        choices = ["apply", "apply", "apply", "map", "map", "starmap", "doublestarmap"]
    choices += ["cancel", "cancel", "cancel-group", "cancel-all", "flush", "get-group-ids", "lock", "unlock",
                "prop", "prop", "prop", "pool-size-set", "gather-and-close", "until-closed"]
    k = rng.choice(choices)

    def opt(long, shortflag):
        return shortflag if (short and rng.random() < 0.5) else long

    def cbs(text, direct_pos):
        e = c = None
        if rng.random() < 0.3:
            e = {"$func": "on_end"}
            text.append(opt("--end-callback", "-e") + " " + W + "on_end")
        if rng.random() < 0.3:
            c = {"$func": "on_cancel"}
            text.append(opt("--cancel-callback", "-c") + " " + W + "on_cancel")
        direct_pos.extend([e, c])

    if k == "apply":
        fn = rng.choice(["work", "job", "mutator", "alias", "alias", "nightly", "_hidden"])
        text = ["apply", ("tpsim.ctlpkg." if fn == "nightly" else W) + fn]
        args, kwargs, num, gname = (), None, 1, None
        if rng.random() < 0.5:
            args = rng.choice([(), (1,), (1, 2), ("x",), (1, "y", 3.5), ([1, 2],), ([1, 2], {"a": [3]}),
                               ("(",), ["[x"], ("}", ")"), ("a]", 1)])      # brackets inside strings are text, not nesting
            text.append(opt("--args", "-a") + " " + lit(args))
            if rng.random() < 0.06:
                # valid as a Python literal and as JSON, but with different meanings (Python keeps the backslash of \/)
                text[-1] = opt("--args", "-a") + ' ["a\\/b","http:\\/\\/host"]'
                args = ["a\\/b", "http:\\/\\/host"]
            if rng.random() < 0.08:
                # a literal with an escape sequence Python does not know: still a valid literal ('\\d' is backslash + d)
                args = ("\\d+",)
                text[-1] = opt("--args", "-a") + " ('\\d+',)"
        if rng.random() < 0.4:
            kwargs = rng.choice([{}, {"a": 1}, {"a": 1, "b": "z"}])
            text.append(opt("--kwargs", "-k") + " " + lit(kwargs))
        if rng.random() < 0.6:
            num = rng.choice([0, 1, 2, 3, -1])
            text.append(opt("--num", "-n") + " " + str(num))
        if rng.random() < 0.4:
            gname = rng.choice(["g1", "g2", "g\t3", "g\u00a04", ""])
            text.append(opt("--group-name", "-g") + " " + gname)
            if gname == "":
                text.append("--num " + str(num))       # keeps the empty value from being the stripped line end
        pos = [{"$func": fn}, freeze(args), freeze(kwargs), num, gname]
        cbs(text, pos)
        return " ".join(text), {"m": "apply", "a": pos}
    if k in ("map", "starmap", "doublestarmap"):
        if k == "map":
            it = rng.choice([[1, 2, 3], (1, 2), [], "ab", [7], [[1, 2], [3]], [[1, 2], [3]]])
        elif k == "starmap":
            it = rng.choice([[(1, 2), (3, 4)], [(1,)], [], [(1, 2, 3), (4,)]])
        else:
            it = rng.choice([[{"a": 1}, {"b": 2}], [{}], [], [{"a": 1, "c": "x"}]])
        mfn = "mutator" if (k == "map" and it == [[1, 2], [3]]) else "work"
        F = {"$func": mfn}
        text = [k, W + mfn, lit(it)]
        nc, gname = 1, None
        if rng.random() < 0.6:
            nc = rng.choice([1, 2, 3, 0, -2])
            text.append(opt("--num-concurrent", "-n") + " " + str(nc))
        if rng.random() < 0.4:
            gname = rng.choice(["g1", "g2"])
            text.append(opt("--group-name", "-g") + " " + gname)
        pos = [F, freeze(it), nc, gname]
        cbs(text, pos)
        return " ".join(text), {"m": k, "a": pos}
    if k == "start":
        n = rng.choice([0, 1, 2, 3, 5])
        return f"start {n}", {"m": "start", "a": [n]}
    if k == "stop":
        n = rng.choice([0, 1, 2, 3, -1])
        return f"stop {n}", {"m": "stop", "a": [n]}
    if k == "stop-all":
        return "stop-all", {"m": "stop_all", "a": []}
    if k == "func-name":
        return "func-name", {"m": "func_name", "a": []}
    if k == "cancel":
        ids = [rng.choice([0, 1, 2, 3, 4, 9, -1]) for _ in range(rng.choice([0, 1, 1, 2, 3]))]
        text = ["cancel"] + [str(i) for i in ids]
        kw = {}
        if rng.random() < 0.4:
            kw["msg"] = rng.choice(["bye", "shut\u00a0down", "a\tb", ""])
            text.insert(1, opt("--msg", "-m") + " " + kw["msg"])
            if not ids:
                text.append("0")
                ids = [0]
        return " ".join(text), {"m": "cancel", "a": ids, "k": kw}
    if k == "cancel-group":
        g = rng.choice(["g1", "g2", "apply-work-group-0", "map-work-group-0", "start-group-0", "nope"])
        text = ["cancel-group", g]
        pos = [g]
        if rng.random() < 0.3:
            text.append(opt("--msg", "-m") + " stop-it")
            pos.append("stop-it")
        return " ".join(text), {"m": "cancel_group", "a": pos}
    if k == "cancel-all":
        if rng.random() < 0.3:
            return "cancel-all --msg x", {"m": "cancel_all", "a": ["x"]}
        return "cancel-all", {"m": "cancel_all", "a": []}
    if k in ("flush", "gather-and-close"):
        r = rng.random() < 0.4
        text = k + ((" " + opt("--return-exceptions", "-r")) if r else "")
        return text, {"m": k.replace("-", "_"), "a": [r]}
    if k == "get-group-ids":
        gs = [rng.choice(["g1", "g2", "apply-work-group-0", "start-group-0", "nope"]) for _ in range(rng.choice([0, 1, 2]))]
        return " ".join(["get-group-ids"] + gs), {"m": "get_group_ids", "a": gs}
    if k in ("lock", "unlock"):
        return k, {"m": k, "a": []}
    if k == "until-closed":
        return k, {"m": "until_closed", "a": []}
    if k == "prop":
        p = rng.choice(props)
        return p, {"m": p.replace("-", "_"), "a": []}
    if k == "pool-size-set":
        v = rng.choice([0, 1, 2, 5, -3])
        return f"pool-size {v}", {"m": "pool_size", "a": [v]}
    raise AssertionError(k)


# ============================================================================= C17: twin runs
def c17_big_unit(rng):
    """Replies far above SESSION_MSG_BYTES (100 KiB): the id lists of 16 300+ tasks, served vs direct."""
    cfg = base_config(rng, "S", frag=0.0)
    cfg["size"] = None
    n = rng.choice([16300, 17000, 20000])
    cmds = [{"text": "start %d" % n, "direct": {"m": "start", "a": [n]}, "gates": []},
            {"text": "num-running", "direct": {"m": "num_running", "a": []}, "gates": []},
            {"text": "get-group-ids start-group-0", "direct": {"m": "get_group_ids", "a": ["start-group-0"]}, "gates": []},
            {"text": "stop-all", "direct": {"m": "stop_all", "a": []}, "gates": []},
            {"text": "num-running", "direct": {"m": "num_running", "a": []}, "gates": []}]
    return cfg, cmds


def c17_unit(rng, seed):
    if seed == "big":
        return c17_big_unit(rng)
    cls = rng.choice(["T", "T", "S"])
    cfg = base_config(rng, cls)
    cfg["size"] = rng.choice([None, 1, 2, 3])
    ncmd = rng.choice([3, 6, 10, 16])
    short = rng.random() < 0.5
    cmds = []
    if rng.random() < 0.15:
        # many one-task groups, then the ids of several of them at once: a set of small ints whose iteration order is
        # not the ascending one ({8, 1} prints as "{8, 1}") - the reply is str() of exactly what the method returns
        k = rng.choice([9, 10, 12, 17, 20, 33])
        for _ in range(k):
            if cls == "S":
                cmds.append({"text": "start 1", "direct": {"m": "start", "a": [1]}, "gates": []})
            else:
                cmds.append({"text": "apply " + W + "work", "direct": {"m": "apply", "a": [{"$func": "work"}, [], None, 1, None, None, None]}, "gates": []})
        pat = "start-group-%d" if cls == "S" else "apply-work-group-%d"
        for _ in range(rng.choice([2, 3, 5])):
            ids = rng.sample(range(k), rng.choice([2, 2, 3, 4, 6]))
            if rng.random() < 0.7:
                ids[0] = rng.choice([8, k - 1])
                ids = list(dict.fromkeys(ids))
            gs = [pat % i for i in ids]
            cmds.append({"text": " ".join(["get-group-ids"] + gs), "direct": {"m": "get_group_ids", "a": gs}, "gates": []})
    for _ in range(ncmd):
        text, direct = gen_command(rng, cls, short)
        gates = []
        if rng.random() < 0.5:
            gates = [rng.randrange(8) for _ in range(rng.choice([1, 2, 4]))]
        if "mutator" in text:
            gates = list(range(12))      # let the mutating workers finish before the text is sent again
        cmds.append({"text": text, "direct": direct, "gates": gates, "eol": rng.choice(EOLS)})
        if "mutator" in text or rng.random() < 0.1:
            # the very same command text again, twice more (with two alternating sessions one of them sees it twice)
            cmds.append({"text": text, "direct": copy.deepcopy(direct), "gates": list(range(12, 24))})
            cmds.append({"text": text, "direct": copy.deepcopy(direct), "gates": list(range(24, 36))})
        if "alias" in text and rng.random() < 0.7:
            # the dotted path is rebound, then the very same text is sent again (twice: one session sees it twice)
            cmds.append({"rebind": True, "text": "", "direct": None, "gates": []})
            cmds.append({"text": text, "direct": copy.deepcopy(direct), "gates": []})
            cmds.append({"text": text, "direct": copy.deepcopy(direct), "gates": []})
        if rng.random() < 0.3:
            # noise: a help request / usage error on another session; must not leak into anybody's reply
            base = text.split(" ")[0]
            cmds.append({"text": rng.choice([base + " -h", base + " --help", "no-such-command", base + " zz zz zz zz", "-h"]),
                         "noise": True, "direct": None, "gates": []})
    return cfg, cmds


def c17_exec(cfg, cmds, mode):
    """mode 'served': commands as text through a session; mode 'direct': the equivalent calls."""
    run = {"prop": "C17", "config": cfg, "steps": [], "mode": mode, "cmds": cmds}
    sim = CtlSim(run, {"C17"})
    trace = []
    state = {"i": 0, "phase": 0, "session": 0, "map": {}}

    def source(s):
        # a tiny state machine producing steps; results are sampled at idle points
        i, ph = state["i"], state["phase"]
        if ph == 0:
            state["phase"] = 0.5 if mode == "served" else 2
            return {"op": "start"} if mode == "served" else {"op": "idle"}
        if ph == 0.5:
            state["phase"] = 0.7
            state["session"] = 1
            return {"op": "connect", "c": 1, "w": 80}
        if ph == 0.7:
            state["phase"] = 1
            state["session"] = 2
            return {"op": "connect", "c": 2, "w": 80}
        if ph == 1:
            state["phase"] = 2
            return {"op": "idle"}
        if i >= len(cmds):
            return None
        cmd = cmds[i]
        if ph == 2 and cmd.get("rebind"):
            state["i"] += 1
            return {"op": "rebind"}
        if ph == 2:
            state["phase"] = 3
            if mode == "served":
                # use a session that is not blocked by an unanswered (waiting) command
                free = [c for c in s.clients.values() if c.connected and len(c.replies()) == len(c.lines)]
                other = [c for c in free if c.label != state.get("last")]
                if other:
                    free = other
                if not free:
                    state["session"] += 1
                    state["phase"] = 2
                    state["connecting"] = True
                    return {"op": "connect", "c": state["session"], "w": 80}
                c = free[0]
                state["last"] = c.label
                if not cmd.get("noise"):
                    state["map"][i] = (c.label, len(c.lines))
                return {"op": "line", "c": c.label, "text": cmd["text"], "eol": cmd.get("eol", "\n")}
            if cmd.get("noise"):
                return {"op": "idle"}
            state["map"][i] = len(s.direct_results)
            return dict(cmd["direct"], op="direct")
        if ph == 3:
            state["phase"] = 4
            return {"op": "idle"}
        if ph == 4:
            trace.append(("obs", i, s.observables(), [(r["f"], r["args"], r["kwargs"], r["state"]) for r in s.invocations]))
            state["phase"] = 5
            state["g"] = 0
            return {"op": "idle"}
        if ph == 5:
            g = state["g"]
            if g < len(cmd["gates"]):
                state["g"] += 1
                return {"op": "gate", "k": cmd["gates"][g]}
            state["phase"] = 6
            return {"op": "idle"}
        if ph == 6:
            trace.append(("obs2", i, s.observables()))
            state["i"] += 1
            state["phase"] = 2
            return {"op": "idle"}
        return None

    def src(s):
        st = source(s)
        if st is not None and st["op"] == "connect":
            return st
        if state.get("connecting") and st is not None and st["op"] != "connect":
            state["connecting"] = False
        return st

    # after a connect we must let the handshake complete before choosing a session again
    def src2(s):
        if state.get("need_idle"):
            state["need_idle"] = False
            return {"op": "idle"}
        st = src(s)
        if st is not None and st["op"] == "connect":
            state["need_idle"] = True
        return st

    sim.execute(src2)
    # replies per command
    replies = []
    for i in range(len(cmds)):
        m = state["map"].get(i)
        if m is None:
            replies.append(None)
        elif mode == "served":
            lab, idx = m
            reps = sim.clients[lab].replies()
            replies.append(reps[idx][:-1] if idx < len(reps) and reps[idx].endswith("\n") else (reps[idx] if idx < len(reps) else None))
        else:
            r = sim.direct_results[m] if m < len(sim.direct_results) else None
            replies.append(r[1] if r else None)
    return sim, trace, replies


# ============================================================================= C18: robustness
BAD_INTS = ["==SUPPRESS==", "three", "1.5", "None", "0x1g", "1e3", "[1]"]


def invalid_line(rng, cls, token):
    """A line that is certainly malformed (an int parameter given a non-int): must be answered with usage/error text."""
    bad = rng.choice(BAD_INTS)
    if rng.random() < 0.12:
        # a long line (still below the 64 KiB stream limit): thousands of ids after the malformed one, or one huge token
        n = rng.choice([4097, 4200, 9000, 30000, 60000])
        if rng.random() < 0.5:
            ids = []
            while sum(len(x) + 1 for x in ids) < n:
                ids.append(str(len(ids)))
            return f"cancel {bad} " + " ".join(ids)
        return f"no-such-{token}-" + "y" * n
    if rng.random() < 0.08 and cls != "S":
        # "entry point" notation instead of a dotted path: a long run of identifier characters and dots, then one ':'
        return rng.choice(["apply mycompany_dataplatform.ingestion_workers.download_tasks:fetch_all",
                           "map tpsim.ctlworkers.work_with_a_rather_long_name_for_a_function:run [1,2]",
                           f"apply {W}work -e some_package.callbacks.notification_handlers.on_task_finished:handler"])
    if cls == "S":
        return rng.choice([f"start {bad}", f"stop {bad}", f"pool-size {bad}", f"cancel {bad}", f"cancel 0 {bad}"])
    return rng.choice([f"apply {W}work -n {bad} -g grp{token}", f"map {W}work [1,2] -n {bad} -g grp{token}",
                       f"pool-size {bad}", f"cancel {bad}", f"starmap {W}work [(1,2)] --num-concurrent {bad}"])


LATIN1_FILE = os.path.join(os.path.dirname(os.path.abspath(__file__)), "fixtures", "latin1.txt")
JUNK = ["@" + LATIN1_FILE, "['\\d']", "'\\w+'", "==SUPPRESS==", "--", "-", "--zz", "-x", "'", "\"", "((", "[1,", "{'a':}", "9" * 30, "éü中", "a=b", "%s", "$(ls)",
        "None", "True", "-0", "1e9", "tpsim.nope.x", "os.system", "..", "apply", "-h", "--help", "\t", "\\", "@file"]


def mutate_line(rng, text, token):
    parts = text.split(" ")
    how = rng.choice(["unknown", "drop", "extra", "type", "junk", "dup", "spaces", "help", "literal", "path", "keep", "keep"])
    if how == "unknown":
        return f"no-such-{token}"
    if how == "drop" and len(parts) > 1:
        del parts[rng.randrange(1, len(parts))]
    elif how == "extra":
        parts.insert(rng.randrange(1, len(parts) + 1), token)
    elif how == "type" and len(parts) > 1:
        parts[rng.randrange(1, len(parts))] = token
    elif how == "junk":
        parts.insert(rng.randrange(0, len(parts) + 1), rng.choice(JUNK))
    elif how == "dup":
        parts = parts + parts[1:]
    elif how == "spaces":
        parts.insert(rng.randrange(1, len(parts) + 1), "")
    elif how == "help":
        parts.insert(rng.randrange(1, len(parts) + 1), rng.choice(["-h", "--help"]))
    elif how == "literal":
        parts.append(rng.choice(["[1,2", "{1:}", "(,)", "lambda:0", "__import__('os')", "[" * 40]))
    elif how == "path":
        parts = [parts[0], rng.choice(["tpsim.ctlworkers.nope", "nonexistent_module_xyz.f", "tpsim.ctlworkers.some_value",
                                        "tpsim.ctlworkers.not_a_coroutine_function", "."])] + parts[2:]
    line = " ".join(parts)
    if not line.strip():
        line = f"x-{token}"
    return line


def c18_run(rng):
    cls = rng.choice(["T", "T", "S"])
    cfg = base_config(rng, cls)
    if rng.random() < 0.3:
        cfg["noisy"] = True        # the pool's workers print to the console
    nsess = rng.choice([1, 1, 2, 3, 4, 4, 11])      # (11: two-digit session counts)
    steps = [{"op": "start"}, {"op": "idle"}]
    for i in range(nsess):
        steps.append({"op": "connect", "c": i + 1, "w": rng.choice(WIDTHS)})
    steps.append({"op": "idle"})
    tokens = {}
    counts = {i + 1: 0 for i in range(nsess)}
    nlines = rng.choice([4, 8, 14, 24]) if nsess < 11 else rng.choice([24, 48])
    burst = rng.random() < 0.5
    closed = False
    waiter = rng.randrange(nsess) + 1 if (nsess >= 2 and rng.random() < 0.35) else None
    wait_at = rng.randrange(max(1, nlines - 2)) if waiter else None
    parked = set()
    for n in range(nlines):
        free = [k + 1 for k in range(nsess) if (k + 1) not in parked]
        c = rng.choice(free)
        text, direct = gen_command(rng, cls, rng.random() < 0.5)
        token = f"tok{c}x{counts[c]}q"
        if waiter and n == wait_at and waiter not in parked:
            # one session parks in until-closed; another one will close the pool near the end
            c = waiter
            token = f"tok{c}x{counts[c]}q"
            tokens[f"{c}:{counts[c]}"] = token
            counts[c] += 1
            parked.add(c)
            steps.append({"op": "line", "c": c, "text": "until-closed"})
            continue
        if text.split(" ")[0] in ("until-closed", "gather-and-close"):
            if n < nlines - 2 or closed:
                text = "num-running"
            else:
                closed = True
        elif waiter and n == nlines - 1 and not closed:
            text = "gather-and-close --return-exceptions"
            closed = True
            if waiter in parked and rng.random() < 0.4:
                # the serving task is cancelled while the waiter's command is still waiting and every client is still
                # connected; this last line ends the wait: both it and the waiting command must still be answered
                steps += [{"op": "idle"}, {"op": "stop"}, {"op": "idle"}]
        must_be_usage = False
        if rng.random() < 0.12 and not text.startswith("gather-and-close"):
            text = invalid_line(rng, cls, token)
            must_be_usage = True
        elif rng.random() < 0.55:
            text = mutate_line(rng, text, token)
        elif rng.random() < 0.15:
            text = "-h"            # long reply ...
        if rng.random() < 0.07 and cls == "T" and not must_be_usage and not text.startswith(("gather", "until")):
            # a request and the cancellation of its group pipelined in ONE write: the spawner is cancelled before it ran
            g = f"pz{n}"
            tokens[f"{c}:{counts[c]}"] = f"tok{c}x{counts[c]}q"
            counts[c] += 1
            tokens[f"{c}:{counts[c]}"] = f"tok{c}x{counts[c]}q"
            counts[c] += 1
            steps.append({"op": "raw", "c": c, "data": f"apply {W}work -n 2 -g {g}\ncancel-group {g}\n"})
            steps.append({"op": "idle"})
        tokens[f"{c}:{counts[c]}"] = token
        counts[c] += 1
        if not burst:
            steps.append({"op": "snap", "c": c})
        if rng.random() < 0.2:
            # deliver the line in fragments written separately
            cut = rng.randrange(0, len(text) + 1)
            steps.append({"op": "raw", "c": c, "data": text[:cut]})
            if rng.random() < 0.5:
                steps.append({"op": "run", "n": rng.choice([1, 5, 20])})
            steps.append({"op": "raw", "c": c, "data": text[cut:] + "\n"})
        else:
            steps.append({"op": "line", "c": c, "text": text, "eol": rng.choice(EOLS)})
        if text == "-h":
            tokens[f"{c}:{counts[c]}"] = f"tok{c}x{counts[c]}q"
            counts[c] += 1
            steps.append({"op": "line", "c": c, "text": "num-running"})
            steps.append({"op": "idle"})
            steps.append({"op": "expect_number", "c": c, "i": counts[c] - 1})
        if must_be_usage:
            steps.append({"op": "idle"})
            steps.append({"op": "expect_usage", "c": c, "i": counts[c] - 1})
        if not burst:
            steps.append({"op": "snap_line", "c": c, "i": counts[c] - 1})
        elif rng.random() < 0.3:
            steps.append({"op": "run", "n": rng.choice([1, 3, 10, 40])})
        if rng.random() < 0.15:
            steps.append({"op": "gate", "k": rng.randrange(6)})
            if rng.random() < 0.35:
                steps[-1]["x"] = 1          # that worker fails (round 14)
    if rng.random() < 0.3:
        # a scripted client: a few more lines in one go, then it closes its sending side and only reads from then on
        c = rng.randrange(nsess) + 1
        if c not in parked:
            for text in rng.sample(["num-running", "is-locked", "pool-size", "-h", "no-such-thing", "is-full"], rng.choice([1, 2, 4])):
                tokens[f"{c}:{counts[c]}"] = f"tok{c}x{counts[c]}q"
                counts[c] += 1
                steps.append({"op": "line", "c": c, "text": text})
            steps.append({"op": "close", "c": c, "how": "eof"})
    steps.append({"op": "idle"})
    for k in range(12):
        steps.append({"op": "gate", "k": k})
    steps.append({"op": "idle"})
    return {"prop": "C18", "config": cfg, "steps": steps, "tokens": tokens,
            "final": ["sessions_clean", "reply_counts", "tokens"]}


def _op_snap_line(self, st):
    """Lock-step: wait for the reply of line i of client c; a usage/error reply must not have changed the pool."""
    c = self.clients.get(st["c"])
    if c is None:
        return
    before = getattr(c, "snap_before", None)
    self.run_to_idle()
    now = self.observables()
    reps = c.replies()
    i = st["i"]
    if i < len(reps) and before is not None:
        rep = reps[i]
        if rep.startswith("usage:") and now != before:
            self.violate("C18", "invalid_line_changed_pool", f"line {c.lines[i]!r} was answered with usage/error text but the pool changed: {before} -> {now}")
    c.snap_before = None


def _op_snap(self, st):
    c = self.clients.get(st["c"])
    if c is None:
        return
    self.run_to_idle()
    c.snap_before = self.observables()


def _op_expect_number(self, st):
    c = self.clients.get(st["c"])
    if c is None:
        return
    reps = c.replies()
    i = st["i"]
    if i < len(reps) and c.lines[i] == "num-running":
        if not re.fullmatch(r"\d+\n", reps[i]):
            self.violate("C18", "stale_buffer", f"'num-running' after a long reply answered {reps[i][:60]!r}")


def _op_expect_usage(self, st):
    c = self.clients.get(st["c"])
    if c is None:
        return
    reps = c.replies()
    i = st["i"]
    if i < len(reps) and i < len(c.lines) and not reps[i].startswith("usage:"):
        self.violate("C18", "malformed_accepted", f"malformed line {c.lines[i]!r} was not answered with a usage/error message but with {reps[i][:60]!r}")


CtlSim._op_expect_usage = _op_expect_usage
CtlSim._op_snap_line = _op_snap_line
CtlSim._op_snap = _op_snap
CtlSim._op_expect_number = _op_expect_number


# ============================================================================= C19: lifecycle
def c19_run(rng):
    cfg = base_config(rng, rng.choice(["T", "S"]), frag=0.0)
    cfg["net"]["max_chunk"] = 0
    if cfg["transport"] == "unix" and rng.random() < 0.25:
        cfg["stale_socket"] = True
    if cfg["transport"] == "unix" and rng.random() < 0.2:
        cfg["relpath"] = 1
    steps = [{"op": "start"}]
    if rng.random() < 0.8:
        steps.append({"op": "idle"})
    n = rng.choice([0, 1, 1, 2, 3, 4, 4, 11])
    labels = []
    acts = []
    for i in range(n):
        lab = i + 1
        labels.append(lab)
        kind = rng.choice(["raw", "raw", "cli", "main"])
        if kind == "raw" and rng.random() < 0.12:
            # a client whose command line exceeds the stream limit, delivered in pieces (its session may end: that must
            # not disturb anybody else)
            big = "cancel " + " ".join(str(j) for j in range(30000))
            k = rng.choice([100000, 70000, 65536])
            seq = [{"op": "connect", "c": lab, "w": 80}, {"op": "raw", "c": lab, "data": big[:k]}, {"op": "raw", "c": lab, "data": big[k:] + "\n"},
                   {"op": "close", "c": lab, "how": "close"}]
        elif kind == "raw" and rng.random() < 0.2:
            seq = [{"op": "connect", "c": lab, "w": 80, "hs": rng.choice(["none", "garbage", "nokey", "partial"])}]
            if rng.random() < 0.8:
                seq.append({"op": "close", "c": lab, "how": rng.choice(["close", "close", "eof", "abort"])})
        elif kind == "raw":
            seq = [{"op": "connect", "c": lab, "w": 80}]
            for _ in range(rng.choice([0, 1, 2, 3])):
                busy = ["start 2", "stop 1"] if cfg["cls"] == "S" else ["apply tpsim.ctlworkers.work -n 2", "map tpsim.ctlworkers.work [1,2,3] -n 2", "cancel-all"]
                seq.append({"op": "line", "c": lab, "text": rng.choice(["num-running", "is-locked", "pool-size", "-h", "bogus", "lock", "unlock"] + busy),
                            "eol": rng.choice(EOLS)})
            how = rng.choice(["close", "close", "eof", "abort", "vanish", None])
            if how:
                seq.append({"op": "close", "c": lab, "how": how})
        else:
            lines = [rng.choice(["num-running", "is-locked", "pool-size", "NUM-RUNNING", "  is-full  ", ""]) for _ in range(rng.choice([0, 1, 2, 3]))]
            if rng.random() < 0.15:
                # a reply of several KiB (well below the client's read size of 100 KiB), then ordinary ones: every reply is
                # still printed under its own command
                big = ["start 1200", "stop-all"] if cfg["cls"] == "S" else ["apply tpsim.ctlworkers.work -n 1200 -g bigcli%d" % lab, "get-group-ids bigcli%d" % lab]
                lines = big + ["num-running", "is-locked"] + lines
            if rng.random() < 0.5:
                lines.append("exit")
            seq = [{"op": "cli", "c": lab, "lines": lines, "main": kind == "main"}]
        acts.append(seq)
    parked = n >= 1 and rng.random() < 0.3
    if parked:
        # one more session sits in a command whose method itself waits, for as long as the others are being served
        seq = [{"op": "connect", "c": 40, "w": 80}]
        if rng.random() < 0.5:
            seq.append({"op": "line", "c": 40, "text": "num-running"})
        if rng.random() < 0.6:
            seq.append({"op": "line", "c": 40, "text": "until-closed"})
        else:
            # (first line and the waiting command in ONE write: the waiting command has begun once the first is answered)
            seq += [{"op": "line", "c": 40, "text": "start 2" if cfg["cls"] == "S" else "apply tpsim.ctlworkers.work -n 2"},
                    {"op": "line", "c": 40, "text": "until-closed"}]
        acts.insert(rng.randrange(len(acts) + 1), seq)
    stop_in_mix = rng.random() < (0.9 if not parked else 0.4)
    # (round 12: the stop may be requested twice at once, or once more later while clients keep the server waiting)
    acts.append(([{"op": "stop", "n": rng.choice([1, 1, 1, 2])}] + ([{"op": "stop", "again": 1}] if rng.random() < 0.25 else [])) if stop_in_mix else [])
    # interleave the sequences preserving each one's order
    pend = [list(a) for a in acts if a]
    while pend:
        a = rng.choice(pend)
        steps.append(a.pop(0))
        if not a:
            pend.remove(a)
        r = rng.random()
        if r < 0.4:
            steps.append({"op": "idle"})
        elif r < 0.7:
            steps.append({"op": "run", "n": rng.choice([1, 2, 5, 20])})
    steps.append({"op": "idle"})
    if parked:
        # the wait ends: work is let go and somebody closes the pool (through a session if the server is still up)
        steps += [{"op": "gate", "k": k} for k in range(12)]
        steps += [{"op": "idle"}, {"op": "connect", "c": 41, "w": 80}, {"op": "idle"},
                  {"op": "line", "c": 41, "text": "gather-and-close -r"}, {"op": "idle"},
                  {"op": "direct", "m": "gather_and_close", "a": [True]}, {"op": "idle"}]
    if cfg["transport"] == "tcp" and rng.random() < 0.2:
        # stop while clients are still connected, then the same server object is started again at once
        steps += [{"op": "stop"}, {"op": "idle"}, {"op": "restart", "early": 1}, {"op": "idle"}, {"op": "connect", "c": 51, "w": 80}, {"op": "idle"},
                  {"op": "line", "c": 51, "text": "num-running"}, {"op": "idle"}]
        if rng.random() < 0.6:
            # the clients of the first life leave now (its serving task completes while the second life is serving)
            for lab in labels:
                steps.append({"op": "close", "c": lab, "how": "close"})
            steps += [{"op": "idle"}, {"op": "line", "c": 51, "text": "is-locked"}, {"op": "idle"},
                      {"op": "connect", "c": 52, "w": 80}, {"op": "idle"}, {"op": "line", "c": 52, "text": "num-running"}, {"op": "idle"}]
    elif rng.random() < 0.25:
        # complete stop (all raw clients leave), then the same server object is started again and must serve again
        steps.append({"op": "stop"})
        for lab in labels:
            steps.append({"op": "close", "c": lab, "how": "close"})
        steps += [{"op": "idle"}, {"op": "restart"}, {"op": "idle"}, {"op": "connect", "c": 50, "w": 80}, {"op": "idle"},
                  {"op": "line", "c": 50, "text": "num-running"}, {"op": "idle"}]
    return {"prop": "C19", "config": cfg, "steps": steps, "final": ["c19"]}


def c18_longline_run(rng):
    """Recorded finding F-LONGLINE: a command line longer than the stream reader's limit (64 KiB) - e.g. `cancel` with
    14 000 ids - is not answered; the ValueError of readline() escapes and ends the session."""
    cfg = base_config(rng, rng.choice(["T", "S"]), frag=0.0)
    n = rng.choice([65536, 65537, 70000, 131073, 200000])
    kind = rng.choice(["ids", "token"])
    if kind == "ids":
        ids = []
        while sum(len(x) + 1 for x in ids) < n:
            ids.append(str(len(ids)))
        text = "cancel " + " ".join(ids)
    else:
        text = "no-such-command-" + "y" * n
    steps = [{"op": "start"}, {"op": "idle"}, {"op": "connect", "c": 1, "w": 80}, {"op": "connect", "c": 2, "w": 80}, {"op": "idle"},
             {"op": "line", "c": 1, "text": "num-running"}, {"op": "idle"}]
    if rng.random() < 0.5:
        steps.append({"op": "line", "c": 1, "text": text})
    else:
        k = rng.randrange(1, len(text))
        steps += [{"op": "raw", "c": 1, "data": text[:k]}, {"op": "idle"}, {"op": "raw", "c": 1, "data": text[k:] + "\n"}]
    steps += [{"op": "idle"}, {"op": "line", "c": 1, "text": "num-running"}, {"op": "line", "c": 2, "text": "num-running"}, {"op": "idle"}]
    return {"prop": "C18", "config": cfg, "steps": steps, "final": ["sessions_clean", "reply_counts"]}


def storm_run(rng, prop):
    """Scale in sessions: N clients that misbehave or just come and go (malformed / absent handshake, abrupt ends), or N
    simultaneously connected well-behaved ones, and then a regular client that must be served like the first one."""
    cfg = base_config(rng, rng.choice(["T", "S"]), frag=0.0)
    cfg["net"]["max_chunk"] = 0
    n = rng.choice([17, 33, 65, 130])
    steps = [{"op": "start"}, {"op": "idle"}]
    mode = rng.choice(["bad", "bad", "concurrent", "sequential"])
    for i in range(n):
        lab = 100 + i
        if mode == "bad":
            steps.append({"op": "connect", "c": lab, "w": 80, "hs": rng.choice(["garbage", "none", "nokey", "partial"])})
            if rng.random() < 0.3:
                steps.append({"op": "run", "n": rng.choice([1, 5])})
            steps.append({"op": "close", "c": lab, "how": rng.choice(["close", "abort", "eof"])})
        else:
            steps.append({"op": "connect", "c": lab, "w": 80})
            steps.append({"op": "line", "c": lab, "text": rng.choice(["num-running", "is-locked", "bogus"])})
            if mode == "sequential":
                steps += [{"op": "idle"}, {"op": "close", "c": lab, "how": rng.choice(["close", "abort", "eof"])}]
        if i % 8 == 7:
            steps.append({"op": "idle"})
    steps += [{"op": "idle"}, {"op": "connect", "c": 1, "w": 80}, {"op": "idle"}]
    for text in ("num-running", "is-locked", "pool-size"):
        steps += [{"op": "line", "c": 1, "text": text}, {"op": "idle"}]
    if prop == "C19":
        return {"prop": "C19", "config": cfg, "steps": steps, "final": ["c19"]}
    return {"prop": "C18", "config": cfg, "steps": steps, "final": ["sessions_clean", "reply_counts"]}


def c18_killed_session_run(rng):
    """Recorded finding F-EARLY reached through a session (C18: '... never escape as an exception'): a worker cancels a
    not-yet-started sibling, then gather-and-close raises CancelledError inside the session and ends it."""
    run = c19_killed_session_run(rng)
    run.update({"prop": "C18", "final": ["sessions_clean"]})
    run.pop("expect_killed", None)
    return run


def c19_killed_session_run(rng):
    """A session that ends with a BaseException: a worker cancels a not-yet-started sibling (recorded finding
    F-EARLY), then gather-and-close raises CancelledError inside the session.  Only C19's oracles are in force."""
    cfg = base_config(rng, "S", frag=0.0)
    cfg["net"]["max_chunk"] = 0
    cfg["size"] = None
    steps = [{"op": "start"}, {"op": "idle"}, {"op": "connect", "c": 1, "w": 80}, {"op": "connect", "c": 2, "w": 80}, {"op": "idle"},
             {"op": "line", "c": 1, "text": "start " + str(rng.choice([2, 3, 4]))}, {"op": "idle"},
             {"op": "line", "c": 1, "text": "gather-and-close"}, {"op": "idle"}]
    for k in range(6):
        steps.append({"op": "gate", "k": k})
    steps += [{"op": "idle"}, {"op": "line", "c": 2, "text": "is-locked"}, {"op": "idle"}]
    if rng.random() < 0.5:
        steps += [{"op": "stop"}, {"op": "idle"}]
    return {"prop": "C19", "config": cfg, "steps": steps, "final": ["c19"], "simple_func": "stopper", "expect_killed": [1]}


def _end_waits(sim):
    """A session whose command is still waiting (until-closed, gather-and-close ...) cannot notice that its client
    left - recorded finding F-PARKED, decided by the directed family below.  Everywhere else the waits are ended
    (work let go, pool closed) before the clients leave."""
    from .ctlsim import BLOCKING

    def waiting():
        return [c for c in sim.clients.values() if c.kind == "raw" and c.connected and len(c.replies()) < len(c.lines)
                and c.lines[len(c.replies())].strip().split(" ")[0] in BLOCKING]
    if not waiting():
        return
    sim.stats["steered:F-PARKED"] += 1

    def let_go():
        for _ in range(50):
            pend = [fut for fut in sim.gates.values() if not fut.done()]
            if not pend:
                break
            for fut in pend:
                fut.set_result(None)
            sim.run_to_idle()
    let_go()
    if waiting():
        sim.exec_step({"op": "direct", "m": "gather_and_close", "a": [True]})
        sim.run_to_idle()
        let_go()


def c19_parked_run(rng):
    """Recorded finding F-PARKED: the client of a session whose command is still waiting leaves, then the server is stopped."""
    cfg = base_config(rng, rng.choice(["T", "S"]), frag=0.0)
    cfg["net"]["max_chunk"] = 0
    cfg["size"] = None
    steps = [{"op": "start"}, {"op": "idle"}, {"op": "connect", "c": 1, "w": 80}, {"op": "connect", "c": 2, "w": 80}, {"op": "idle"}]
    cmd = rng.choice(["until-closed", "until-closed", "gather-and-close"])
    if cmd == "gather-and-close":
        steps += [{"op": "line", "c": 1, "text": "start 2" if cfg["cls"] == "S" else "apply tpsim.ctlworkers.work -n 2"}, {"op": "idle"}]
    steps += [{"op": "line", "c": 1, "text": cmd}, {"op": "idle"}, {"op": "line", "c": 2, "text": "num-running"}, {"op": "idle"},
              {"op": "close", "c": 1, "how": rng.choice(["close", "eof", "abort"])}, {"op": "idle"}]
    if rng.random() < 0.5:
        steps += [{"op": "stop"}, {"op": "idle"}]
    return {"prop": "C19", "config": cfg, "steps": steps, "final": ["c19"], "parked_leave": True}


def _final_c19(sim):
    """After the recorded steps: let the remaining clients go, then the stopped server must be gone."""
    import os
    if sim.serve_driver is None:
        return
    if sim.serving_task is None:
        sim.violate("C19", "serve_forever_pending", "serve_forever() did not return although the loop went idle")
        return
    # every raw client that is still connected was answered line by line
    for c in sim.clients.values():
        if c.kind == "raw" and c.connected and not c.gone and not sim.stopped and not c.bad_handshake \
                and c.label not in sim.run.get("expect_killed", ()) and getattr(c, "epoch", 0) == getattr(sim, "epoch", 0) \
                and c.label not in sim.overlong_lines():      # (a session that got an over-long line: recorded finding F-LONGLINE, C18)
            nrep, nlines = len(c.replies()), len(c.lines)
            if nrep < nlines:
                from .ctlsim import BLOCKING
                nxt = c.lines[nrep].strip().split(" ")[0]
                if nxt in BLOCKING and sim._wait_not_over(nxt):
                    sim.stats["probe:blocking_command_pending"] += 1      # its own wait is legitimately not over
                    continue
            if nrep != nlines:
                sim.violate("C19", "client_not_served", f"client {c.label}: {nrep} replies for {nlines} lines while the server is up")
    shapes = {"num-running": r"\d+\n", "is-locked": r"(True|False)\n", "pool-size": r"(\d+|inf)\n", "lock": r"ok\n", "unlock": r"ok\n",
              "cancel-all": r"ok\n", "-h": r"usage: \[-h\]", "bogus": r"usage: [\s\S]*invalid choice"}
    for c in sim.clients.values():
        if c.kind == "raw" and c.connected and not c.bad_handshake:
            for ln, rep in zip(c.lines, c.replies()):
                pat = shapes.get(ln.strip())
                if pat and not re.match(pat, rep):
                    sim.violate("C19", "reply_shape", f"client {c.label}: {ln!r} answered with {rep[:70]!r} while other clients were being served")
                    break
    for c in sim.clients.values():
        if c.kind == "cli" and c.finished:
            out = "\n".join(c.printed)
            if c.connect_error is None and "Connected to" in out:
                if str(sim.pool) not in out:
                    sim.violate("C19", "cli_handshake", f"bundled client {c.label} printed {c.printed[:1]!r}")
                if "Disconnected from control server." not in out:
                    sim.violate("C19", "cli_disconnect", f"bundled client {c.label} finished without the disconnect message")
                # what the bundled client printed must be what the server wrote for its connection, reply by reply
                ct = next((a for a, b in sim.loop.net.conns if getattr(a, "owner_task", None) is c.task), None)
                if ct is not None:
                    writes = [w.decode() for w in ct.peer.writes]
                    shown = c.printed[2:]
                    if c.printed and writes and c.printed[0] != "Connected to " + writes[0]:
                        sim.violate("C19", "cli_handshake", f"bundled client {c.label} printed {c.printed[0]!r}, server sent {writes[0]!r}")
                    for i, w in enumerate(writes[1:]):
                        if i < len(shown) and shown[i] != w and shown[i] != "Disconnected from control server.":
                            sim.violate("C19", "cli_reply", f"bundled client {c.label}: reply {i} printed {shown[i][:50]!r}, server wrote {w[:50]!r}")
                            break
                    sim.stats["probe:cli_replies_compared"] += max(0, min(len(shown), len(writes) - 1))
                    # every non-blank line typed at the prompt (except `exit`) is one request and gets one reply; a blank
                    # line is ignored by the client and must not reach (and thereby end) the session
                    typed = [ln for ln in getattr(c, "cli_sent", []) if ln.strip() and ln.strip().lower() != "exit"]
                    # (only in runs in which the server was never stopped: a stopped server's sessions end after their next line)
                    if len(writes) - 1 != len(typed) and not sim.stopped and getattr(sim, "epoch", 0) == 0:
                        sim.violate("C19", "cli_requests", f"bundled client {c.label}: {len(typed)} commands typed ({getattr(c, 'cli_sent', [])!r}), "
                                    f"server wrote {len(writes) - 1} replies on its connection; client printed {c.printed!r}")
    if not sim.run.get("parked_leave"):
        _end_waits(sim)
    if not sim.stopped:
        sim.exec_step({"op": "stop"})
        sim.run_to_idle()
    before = sim.observables()
    # connected clients that have not gone keep the (stopped) server from finishing
    lingering = [c for c in sim.clients.values() if c.connected and not c.finished and c.gone not in ("close", "abort", "eof")]
    if lingering and sim.serving_task.done():
        sim.stats["probe:stopped_with_clients_connected"] += 1
    for c in list(sim.clients.values()):
        if c.kind == "raw" and c.connected and c.gone in (None, "vanish"):
            if c.gone == "vanish":
                c.ct._vanished = False
                c.ct.abort()
                c.gone = "abort"
            else:
                sim.exec_step({"op": "close", "c": c.label, "how": "close"})
        elif c.kind == "cli" and not c.finished:
            c.script = []          # next input() raises EOFError -> exit
    sim.run_to_idle()
    for c in sim.clients.values():
        if c.kind == "cli" and not c.finished:
            # a bundled client blocked in reader.read() for a reply that never comes: reset it
            c.task.cancel()
    sim.run_to_idle()
    if sim.observables() != before:
        sim.violate("C19", "disconnect_changed_pool", f"clients disconnecting changed the pool: {before} -> {sim.observables()}")
    for t in getattr(sim, "old_tasks", ()):
        if not t.done():
            sim.violate("C19", "serving_task_pending", "the serving task of the server's first life (cancelled, then the server was started again) did not complete although every client has gone")
            return
    if not sim.serving_task.done():
        open_conns = [(ct.conn_id, ct._lost, st._lost) for ct, st in sim.loop.net.conns if not st._lost]
        sim.violate("C19", "serving_task_pending", f"serving task cancelled and every client gone, but it did not complete (server-side connections still open: {open_conns})")
        return
    if sim.serving_task.cancelled():
        # the documented way to stop (usage/example_server.py): `task.cancel()` ... `await task` - the await has to return
        sim.violate("C19", "serving_task_cancelled", f"the serving task ended as CANCELLED after {getattr(sim, 'stop_requests', 1)} stop request(s): "
                    "whoever awaits it to wait for the stop gets a CancelledError instead of returning")
    elif sim.serving_task.exception() is not None:
        sim.violate("C19", "serving_task_exception", f"serving task ended with {sim.serving_task.exception()!r}")
    if sim.server.is_serving():
        sim.violate("C19", "still_serving", "is_serving() true after the serving task completed")
    addr = sim.address()
    if addr[0] == "unix" and os.path.exists(addr[1]):
        sim.violate("C19", "socket_file_left", "unix socket file still exists after the server stopped")
    sim.exec_step({"op": "connect", "c": 999, "w": 80})
    sim.run_to_idle()
    late = sim.clients[999]
    if late.connected:
        sim.violate("C19", "accepts_after_stop", "a connection was accepted after the server stopped")
    elif not isinstance(late.connect_error, (ConnectionRefusedError, FileNotFoundError)):
        sim.violate("C19", "connect_error_kind", f"connect after stop failed with {late.connect_error!r}")


CtlSim._final_c19 = lambda self: _final_c19(self)


# ============================================================================= engine interface
def make_run(prop, seed):
    rng = random.Random(seed)
    if prop == "C18":
        run = c18_run(rng)
    elif prop == "C19":
        run = c19_run(rng)
    else:
        raise ValueError(prop)
    run["seed"] = seed
    return run


def digest_for_seed(prop, seed):
    if prop in ("C18", "C19"):
        return CtlSim(make_run(prop, seed), None).execute().digest()
    if prop == "C17":
        rng = random.Random(seed)
        cfg, cmds = c17_unit(rng, seed)
        a, ta, ra = c17_exec(copy.deepcopy(cfg), cmds, "served")
        return a.digest()
    rng = random.Random(seed)
    return CtlSim(c16_run(rng, False, "T", 80, "tcp"), None).execute().digest()


def units(prop, tier, seed):
    order = itertools.count()
    if prop in ("C16", "C18"):
        for k, tr in enumerate(("tcp", "unix")):
            yield ("bigreply", (tr, subseed(seed, prop, "big", k)), next(order))
    if prop == "C16":
        yield ("witness", "witness/F-C16-C16.json", next(order))
        combos = [(stock, cls, tr) for stock in (True, False) for cls in ("T", "S", "Tx", "Sx") for tr in ("tcp", "unix")]
        i = 0
        for w in WIDTHS:
            for stock, cls, tr in combos:
                if tier == "quick" and stock and w not in (80, 1):
                    continue

                yield ("c16", (stock, cls, w, tr, subseed(seed, prop, i)), next(order))
                i += 1
        # every terminal width from 0 to 140 (and a few large ones) once, on alternating classes and transports
        for w in list(range(0, 141)) + [255, 256, 1000, 65536]:
            cls = ("T", "S", "Tx", "Sx")[w % 4]
            yield ("c16", (False, cls, w, ("tcp", "unix")[(w // 4) % 2], subseed(seed, prop, "w", w)), next(order))
        if tier != "quick":
            while True:
                rng = random.Random(subseed(seed, prop, "r", i))
                yield ("c16", (rng.random() < 0.1, rng.choice(["T", "S", "Tx", "Sx"]), rng.randint(1, 600),
                               rng.choice(["tcp", "unix"]), subseed(seed, prop, i)), next(order))
                i += 1
        return
    n = QUICK_N[prop]
    i = 0
    if prop == "C17":
        for k in range(2 if tier == "quick" else 6):
            yield ("bigtwin", subseed(seed, prop, "big", k), next(order))
    if prop in ("C18", "C19"):
        for k in range(8 if tier == "quick" else 60):
            yield ("storm", subseed(seed, prop, "storm", k), next(order))
    if prop == "C18":
        yield ("witness", "witness/F-LONGLINE-C18.json", next(order))
        for k in range(8 if tier == "quick" else 40):
            yield ("longline", subseed(seed, prop, "longline", k), next(order))
        yield ("witness", "witness/F-EARLY-C18.json", next(order))
        for k in range(6 if tier == "quick" else 40):
            yield ("killed18", subseed(seed, prop, "killed", k), next(order))
    if prop == "C19":
        yield ("witness", "witness/F-PARKED-C19.json", next(order))
        for k in range(8 if tier == "quick" else 60):
            yield ("killed", subseed(seed, prop, "killed", k), next(order))
        for k in range(24 if tier == "quick" else 200):
            yield ("parked", subseed(seed, prop, "parked", k), next(order))
    while tier != "quick" or i < n:
        yield ("rand", subseed(seed, prop, "rand", i), next(order))
        i += 1
        if prop in ("C19", "C18") and i % 8 == 0:
            yield ("sweep", subseed(seed, prop, "sweep", i), next(order))


def _account(prop, sim, agg, order, kind, nontrivial, sample=True, signature=None):
    agg.evaluations += 1
    agg.stats["kind:" + kind] += 1
    for k, v in sim.stats.items():
        agg.stats[k] += v
    if nontrivial:
        agg.nontrivial.add(int(sim.digest(), 16))
        if sample and len(agg.samples) < 3:
            agg.samples.append({"config": sim.run["config"], "steps": sim.run["steps"][:25]})
    seen = set()
    for v in sim.viol:
        if v["prop"] != prop or v["oracle"] in seen:
            continue
        seen.add(v["oracle"])
        vsig = v.get("signature") or signature
        rec = {"order": order, "prop": prop, "oracle": v["oracle"], "msg": v["msg"], "run": copy.deepcopy(sim.run),
               "engine": "ctl", "signature": vsig}
        if known_entry(prop, vsig, v["oracle"]) is not None:
            agg.known.setdefault((vsig, v["oracle"]), rec)
            agg.stats["known:" + str(vsig)] += 1
        elif len(agg.violations) < 6:
            agg.violations.append(rec)


def exec_unit(prop, unit, agg):
    kind, arg, order = unit
    if kind == "witness":
        import os
        from .util import VERIF
        with open(os.path.join(VERIF, arg)) as f:
            payload = json.load(f)
        sim = CtlSim(copy.deepcopy(payload["run"]), {prop}).execute()
        agg.stats["witness_replayed"] += 1
        _account(prop, sim, agg, order, "witness", True, signature=payload["signature"])
        return
    if kind == "bigreply":
        tr, sd = arg
        sim = CtlSim(bigreply_run(prop, tr, sd), {prop}).execute()
        _account(prop, sim, agg, order, "bigreply", True)
        return
    if kind == "c16":
        stock, cls, w, tr, seed = arg
        rng = random.Random(seed)
        run = c16_run(rng, stock, cls, w, tr)
        run["seed"] = seed
        sim = CtlSim(run, {prop}).execute()
        _account(prop, sim, agg, order, "stock" if stock else "shim", True, signature="F-C16" if stock else None)
        agg.stats["c16_width_%d" % w] += 1
        return
    if prop == "C17":
        big = kind == "bigtwin"
        rng = random.Random(arg)
        cfg, cmds = c17_unit(rng, "big" if big else arg)
        a, ta, ra = c17_exec(copy.deepcopy(cfg), cmds, "served")
        b, tb, rb = c17_exec(copy.deepcopy(cfg), cmds, "direct")
        agg.stats["c17_commands"] += len(cmds)
        for i, cmd in enumerate(cmds):
            agg.stats["c17_cmd:" + (cmd["text"].split(" ")[0] or "(rebind)")] += 1
        mism = None
        for i, (x, y) in enumerate(zip(ra, rb)):
            if x != y:
                mism = ("reply", f"command {cmds[i]['text']!r}: served reply {x!r}, direct call gives {y!r}")
                break
        if mism is None and ta != tb:
            for x, y in zip(ta, tb):
                if x != y:
                    mism = ("effect", f"after command {cmds[x[1]]['text']!r}: served pool {x[2:]} vs direct {y[2:]}")
                    break
        if mism:
            a.violate("C17", mism[0], mism[1])
        a.run = {"prop": "C17", "config": cfg, "cmds": cmds, "steps": [], "seed": arg, "twin": True}
        _account(prop, a, agg, order, "twin", len(a.invocations) > 0 or any(r not in ("ok", None) for r in ra))
        return
    if kind == "longline":
        sim = CtlSim(c18_longline_run(random.Random(arg)), {prop}).execute()
        _account(prop, sim, agg, order, "longline", True)
        return
    if kind == "storm":
        sim = CtlSim(storm_run(random.Random(arg), prop), {prop}).execute()
        agg.stats["probe:storm_clients"] += sum(1 for c in sim.clients.values() if c.label >= 100)
        _account(prop, sim, agg, order, "storm", True)
        return
    if kind == "killed18":
        sim = CtlSim(c18_killed_session_run(random.Random(arg)), {prop}).execute()
        agg.stats["probe:session_ended_by_base_exception"] += int(bool(sim.early_dead_tasks()))
        _account(prop, sim, agg, order, "killed_session", True)
        return
    if kind == "parked":
        sim = CtlSim(c19_parked_run(random.Random(arg)), {prop}).execute()
        _account(prop, sim, agg, order, "parked_session_left", True, signature="F-PARKED")
        return
    if kind == "killed":
        sim = CtlSim(c19_killed_session_run(random.Random(arg)), {prop}).execute()
        killed = any(isinstance(x[1], asyncio.CancelledError) or "CancelledError" in repr(x) for x in sim.session_exceptions())
        agg.stats["probe:session_ended_by_base_exception"] += int(killed)
        _account(prop, sim, agg, order, "killed_session", True)
        return
    if kind == "sweep" and prop == "C18":
        # one client disconnects (close / abort / eof) at sampled handle positions: the others must not notice
        base_run = make_run(prop, arg)
        base = CtlSim(copy.deepcopy(base_run), {prop}).execute()
        _account(prop, base, agg, order, "sweep_base", True)
        labels = [c for c in base.clients]
        if base.viol or len(labels) < 2:
            return
        rng = random.Random(arg)
        victim = rng.choice(labels)
        how = rng.choice(["close", "abort", "eof"])
        L = base.stats["handles"]
        for h in sorted(set(rng.randrange(L + 1) for _ in range(30))):
            run = copy.deepcopy(base_run)
            run["inject"] = [{"h": h, "step": {"op": "close", "c": victim, "how": how}}]
            sim = CtlSim(run, {prop}).execute()
            agg.stats["sweep_positions"] += 1
            _account(prop, sim, agg, order, "sweep:disconnect_" + how, True, sample=False)
            if sim.viol:
                return
        return
    if kind == "sweep":
        base_run = make_run(prop, arg)
        base_run["steps"] = [s for s in base_run["steps"] if s["op"] != "stop"]
        base = CtlSim(copy.deepcopy(base_run), {prop}).execute()
        _account(prop, base, agg, order, "sweep_base", True)
        if base.viol:
            return
        L = base.stats["handles"]
        rng = random.Random(arg)
        positions = sorted(set([0, 1, 2, 3] + [rng.randrange(L + 1) for _ in range(40)])) if L > 44 else range(L + 1)
        for h in positions:
            run = copy.deepcopy(base_run)
            run["inject"] = [{"h": h, "step": {"op": "stop", "n": 2 if h % 3 == 2 else 1}}]
            sim = CtlSim(run, {prop}).execute()
            agg.stats["sweep_positions"] += 1
            _account(prop, sim, agg, order, "sweep", True, sample=False)
            if sim.viol:
                return
        return
    run = make_run(prop, arg)
    sim = CtlSim(run, {prop}).execute()
    nt = bool(sim.clients) if prop == "C19" else any(c.lines for c in sim.clients.values())
    _account(prop, sim, agg, order, "rand", nt)


def replay(prop, payload):
    run = copy.deepcopy(payload["run"])
    if run.get("twin"):
        a, ta, ra = c17_exec(copy.deepcopy(run["config"]), run["cmds"], "served")
        b, tb, rb = c17_exec(copy.deepcopy(run["config"]), run["cmds"], "direct")
        viol = list(a.viol)
        if ra != rb:
            i = next(i for i, (x, y) in enumerate(zip(ra, rb)) if x != y)
            viol.append({"prop": "C17", "oracle": "reply", "msg": f"command {run['cmds'][i]['text']!r}: served {ra[i]!r} vs direct {rb[i]!r}"})
        elif ta != tb:
            viol.append({"prop": "C17", "oracle": "effect", "msg": "served and direct pools diverge"})
        return {"violations": viol, "digest": a.digest()}
    sim = CtlSim(run, {prop}).execute()
    return {"violations": sim.viol, "digest": sim.digest()}


def minimise(prop, v):
    oracle = v["oracle"]
    run = v["run"]
    if run.get("twin"):
        cmds = run["cmds"]

        def fails_cmds(cs):
            r = dict(run, cmds=cs)
            res = replay(prop, {"run": r})
            return any(x["oracle"] == oracle for x in res["violations"])
        from .shrink import _ddmin
        small = _ddmin(cmds, fails_cmds, [60])
        r = dict(run, cmds=small)
        res = replay(prop, {"run": r})
        msg = next((x["msg"] for x in res["violations"] if x["oracle"] == oracle), v["msg"])
        return {"property": prop, "oracle": oracle, "msg": msg, "run": r, "digest": res["digest"], "engine": "ctl"}

    def fails(r):
        try:
            sim = CtlSim(copy.deepcopy(r), {prop}).execute()
        except Exception:
            return False
        return any(x["prop"] == prop and x["oracle"] == oracle for x in sim.viol)

    small = shrink(run, fails, max_tests=80)
    sim = CtlSim(copy.deepcopy(small), {prop}).execute()
    msg = next((x["msg"] for x in sim.viol if x["oracle"] == oracle), v["msg"])
    return {"property": prop, "oracle": oracle, "msg": msg, "run": small, "digest": sim.digest(), "engine": "ctl",
            "signature": v.get("signature")}


RULES = {
    "C16": "enumeration of (stock|shim) x {TaskPool, SimpleTaskPool, +subclasses with extra members} x {tcp, unix} x terminal widths, 1-3 concurrent handshakes under seeded fragmentation/latency; every public member's help is requested; non-trivial = a handshake was exchanged; distinct by event-log digest",
    "C17": "seeded command programs (every command of both classes, option subsets, values per parameter domain) run twice: through a session over the simulated network, and as direct calls on an identical pool in an identical simulation; replies and observables compared command by command; non-trivial = a worker started or a non-'ok' reply; distinct by event-log digest",
    "C18": "seeded mixes of valid and mutated lines, pipelined/fragmented, 1-4 sessions; non-trivial = at least one line was sent; distinct by event-log digest",
    "C19": "seeded lifecycles (transport, 0-4 raw/bundled clients, every disconnect kind, stop placement) + stop swept over handle boundaries; non-trivial = at least one client; distinct by event-log digest",
}


def evidence(prop, tier, seed, total, wall, known_hit, real):
    st = total.stats
    ev = total.evaluations
    cov = {
        "evaluations": ev,
        "distinct_nontrivial": len(total.nontrivial),
        "rule": RULES[prop],
        "samples": total.samples[:3] or [{"note": "none"}],
        "runs_per_hour": int(ev / wall * 3600) if wall > 0 else 0,
        "seeds_per_hour": int(ev / wall * 3600) if wall > 0 else 0,
        "handles_executed": st.get("handles", 0),
        "simulated_time_s": round(st.get("vtime_ms", 0) / 1000.0, 3),
        "unit_kinds": {k[5:]: v for k, v in st.items() if k.startswith("kind:")},
        "faults_fired": {k: v for k, v in sorted(st.items()) if k.startswith(("fault:", "net:fault:"))},
        "network": {k[4:]: v for k, v in sorted(st.items()) if k.startswith("net:") and not k.startswith("net:fault:")},
        "probes_hit": {k[6:]: v for k, v in sorted(st.items()) if k.startswith("probe:")},
        "steps_executed": {k[3:]: v for k, v in sorted(st.items()) if k.startswith("op:")},
        "sweep_positions": st.get("sweep_positions", 0),
        "known_findings_matched": sorted(str(k) for k in known_hit),
        "other": {k: v for k, v in sorted(st.items()) if k.startswith(("c16_", "c17_", "serving_"))},
        "components": {
            "real": ["asyncio_taskpool.control.server/session/parser/client/__main__", "asyncio_taskpool.pool behind the server",
                     "asyncio streams (StreamReader/StreamWriter/StreamReaderProtocol), start_server/open_connection, base_events.Server"],
            "stub": ["event loop + clock (NetLoop)", "transports and listening sockets (tpsim.net: in-memory, seeded latency/fragmentation/reset/half-close/vanish/back-pressure)",
                     "input()/print()/sys.argv of the bundled CLI client", "annotation shim subclasses of the pool classes (tpsim.shim) - see finding F-C16",
                     "worker functions reachable by dotted path (tpsim.ctlworkers)"],
        },
        "exhaustive": False,
    }
    return {"property_id": prop, "tier": tier, "seed": seed, "level": "exploration", "coverage": cov,
            "assumptions": ["SimTransport mirrors selector-transport semantics relevant here (ordered writes, FIN/RST, half-open, write-buffer water marks)",
                            "the annotation table of the shim maps each postponed annotation string to the type object the parser is written for",
                            "sampling, not enumeration"],
            "wall_s": round(wall, 2)}
