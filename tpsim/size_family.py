"""C15: pool_size read and assignment, as a directed family over (old, new, running, waiting, class)."""
from __future__ import annotations

import copy
import itertools
import random

from .poolsim import run_sim
from .util import subseed, known_entry

SIZES = [0, 1, 2, 3, 4, 6, None]


def units(prop, tier, seed, order):
    yield ("size", ("witness", 0), next(order))
    # exhaustive grid over (class, old, new, extra waiting) plus seeded variations of timing
    grid = []
    for cls in ("T", "S"):
        for old in SIZES:
            for new in SIZES + [-1, -3, -0.5, float("-inf")]:
                for total in (0, 1, 2, 3, 5, 8):
                    grid.append((cls, old, new, total))
    reps = 1 if tier == "quick" else 40
    for rep in range(reps):
        for g in grid:
            yield ("size", (g, subseed(seed, prop, "size", rep, g)), next(order))
    if tier != "quick":
        i = 0
        while True:
            rng = random.Random(subseed(seed, prop, "sizer", i))
            g = (rng.choice("TS"), rng.choice(SIZES), rng.choice(SIZES + [-1]), rng.choice([0, 1, 2, 3, 4, 5, 6, 8, 10]))
            yield ("size", (g, subseed(seed, prop, "sizer2", i)), next(order))
            i += 1


def make_run(g, seed):
    cls, old, new, total = g
    rng = random.Random(seed)
    pcfg = {"cls": cls, "size": old}
    steps = []
    if cls == "S":
        pcfg.update({"fk": "sync", "ecb": rng.choice([None, "s"]), "ccb": None, "sc": [{"g": 1}]})
    steps.append({"op": "size_get", "p": 0})
    idle_assign = (new is None or new >= 0) and rng.random() < 0.3
    if idle_assign:
        # the assignment is made while the pool is still empty; everything after runs against the assigned size
        steps.append({"op": "resize_idle", "p": 0, "v": new})
        steps.append({"op": "size_get", "p": 0})
    n1 = rng.randint(0, total)
    labels = []
    for lab, num in ((1, n1), (2, total - n1)):
        if num == 0:
            continue
        labels.append((lab, num))
        if cls == "S":
            steps.append({"op": "spawn", "p": 0, "r": lab, "kind": "start", "num": num})
        else:
            kind = rng.choice(["apply", "apply", "map"])
            st = {"op": "spawn", "p": 0, "r": lab, "kind": kind, "fk": "sync", "sc": [{"g": 1}],
                  "ecb": rng.choice([None, "s", "s", "a"])}
            if kind == "apply":
                st["num"] = num
            else:
                st["elems"] = [0] * num
                st["nc"] = rng.choice([num, num, max(1, num - 1)])
            steps.append(st)
    steps.append({"op": "idle"})
    if idle_assign:
        gates = [["w", lab, i, 0] for lab, num in labels for i in range(num)]
        rng.shuffle(gates)
        steps.append({"op": "size_get", "p": 0})
        for k in gates:
            steps.append({"op": "gate", "key": k})
            steps.append({"op": "idle"})
        if new != 0:
            # second phase: empty again, back to the old size (or another one), more work
            steps.append({"op": "flush", "p": 0, "rex": 1})
            steps.append({"op": "idle"})
            steps.append({"op": "resize_idle", "p": 0, "v": rng.choice([old, old, 1, 2, None])})
            steps.append({"op": "size_get", "p": 0})
            num = rng.choice([1, 2, 3, 5])
            if cls == "S":
                steps.append({"op": "spawn", "p": 0, "r": 3, "kind": "start", "num": num})
            else:
                steps.append({"op": "spawn", "p": 0, "r": 3, "kind": "apply", "fk": "sync", "sc": [{"g": 1}], "num": num})
            steps.append({"op": "idle"})
            steps.append({"op": "size_get", "p": 0})
        return {"clean": True, "probe": False, "config": {"hmask": 0, "pools": [pcfg]}, "steps": steps,
                "prop": "C15", "seed": seed, "grid": list(g)}
    # optional history before the read/assignment: a group cancelled while its spawner may be blocked, a flush
    if labels and rng.random() < 0.35:
        steps.append({"op": "cancel_group", "p": 0, "r": rng.choice(labels)[0]})
        steps.append({"op": "idle"})
        if rng.random() < 0.5:
            steps.append({"op": "flush", "p": 0, "rex": 1})
            steps.append({"op": "idle"})
    # let some finish before the assignment
    gates = [["w", lab, i, 0] for lab, num in labels for i in range(num)]
    for _ in range(rng.choice([0, 0, 1, 2])):
        if gates:
            steps.append({"op": "gate", "key": gates.pop(0)})
    if rng.random() < 0.7:
        steps.append({"op": "idle"})
    else:
        steps.append({"op": "run", "n": rng.choice([1, 2, 3])})
    if rng.random() < 0.25:
        # re-entrant access: read (and maybe assign) pool_size from inside an end callback
        steps.append({"op": "size_get", "p": 0, "at": ["ecb", rng.choice([1, 1, 2, total or 1])]})
        if rng.random() < 0.5:
            steps.append({"op": "size_set", "p": 0, "v": new, "at": ["ecb", max(1, total)]})
    steps.append({"op": "size_get", "p": 0})
    steps.append({"op": "size_set", "p": 0, "v": new})
    steps.append({"op": "size_get", "p": 0})
    steps.append({"op": "idle"})
    rng.shuffle(gates)
    for k in gates:
        steps.append({"op": "gate", "key": k})
        steps.append({"op": "idle"})
        if rng.random() < 0.3:
            steps.append({"op": "size_get", "p": 0})
    steps.append({"op": "size_get", "p": 0})
    if rng.random() < 0.2:
        # the property holds for every history - also after the pool was closed
        steps += [{"op": "flush", "p": 0, "rex": 1}, {"op": "gather", "p": 0, "rex": 1}, {"op": "idle"},
                  {"op": "size_set", "p": 0, "v": rng.choice([-1, -3])}, {"op": "size_get", "p": 0},
                  {"op": "size_set", "p": 0, "v": rng.choice([0, 1, 5, None])}, {"op": "size_get", "p": 0}]
    return {"clean": True, "probe": False, "config": {"hmask": 0, "pools": [pcfg]}, "steps": steps,
            "prop": "C15", "seed": seed, "grid": list(g)}


def exec_unit(prop, arg, agg, order):
    g, seed = arg
    if g == "witness":
        import json, os
        from .util import VERIF
        with open(os.path.join(VERIF, "witness/F-SIZE-C15.json")) as f:
            run = json.load(f)["run"]
        g = run.get("grid", ["witness"])
    else:
        run = make_run(g, seed)
    sim = run_sim(copy.deepcopy(run), {prop})
    agg.evaluations += 1
    agg.stats["kind:size"] += 1
    for k, v in sim.stats.items():
        if k.startswith(("probe:", "fault:", "op:")) or k in ("handles", "idle_points", "iterations"):
            agg.stats[k] += v
    fired = sim.stats.get("probe:size_read_while_running", 0) or sim.stats.get("probe:size_set_while_running", 0) \
        or sim.stats.get("probe:size_set_while_waiting", 0)
    set_busy = sim.stats.get("probe:size_set_while_running", 0) or sim.stats.get("probe:size_set_while_waiting", 0)
    if fired:
        agg.nontrivial.add(int(sim.digest(), 16))
        if len(agg.samples) < 3:
            agg.samples.append({"grid(cls,old,new,total)": list(g), "steps": run["steps"][:30]})
    sig = "F-SIZE" if fired else None
    seen = set()
    for v in sim.viol:
        if v["prop"] != prop or v["oracle"] in seen:
            continue
        seen.add(v["oracle"])
        sig = "F-SIZE" if fired and (v["oracle"] != "getter_idle" or v.get("tainted")) else None
        if v["oracle"] in ("limit_in_force", "raise_does_not_wake") and not set_busy:
            sig = None        # the recorded finding needs an assignment made while tasks run or wait
        rec = {"order": order, "prop": prop, "oracle": v["oracle"], "msg": v["msg"], "run": run,
               "engine": "pool", "signature": sig}
        if known_entry(prop, sig, v["oracle"]) is not None:
            agg.known.setdefault((sig, v["oracle"]), rec)
            agg.stats["hazard_known:F-SIZE"] += 1
        elif len(agg.violations) < 12:
            agg.violations.append(rec)
    if not seen and fired:
        agg.stats["size_cases_held"] += 1
