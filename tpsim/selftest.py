"""Determinism self-test: same seed twice in-process, and in fresh interpreters under different
PYTHONHASHSEEDs / worker counts: event-log digests must be identical.

  python -m tpsim.selftest digests <prop> <first> <count>   -> prints seed digest lines
  python -m tpsim.selftest run [n]                            -> full self-test
"""
import hashlib
import os
import subprocess
import sys


def digests(prop, first, count):
    out = []
    n = int(prop[1:])
    if n <= 15:
        from .poolsim import generate_and_run
        for s in range(first, first + count):
            # every third seed a phased scenario, some a scale scenario (BigGen / ScaleGen)
            mode = "huge" if s % 11 == 5 else ("big" if s % 11 == 7 else (s % 3 == 2))
            sim = generate_and_run(s, prop, None, phased=mode)
            out.append(f"{prop} {s} {sim.digest()} {len(sim.viol)}")
    elif n <= 19:
        from . import ctl_engine
        for s in range(first, first + count):
            out.append(f"{prop} {s} {ctl_engine.digest_for_seed(prop, s)}")
    else:
        from . import queue_engine
        for s in range(first, first + count):
            out.append(f"{prop} {s} {queue_engine.digest_for_seed(prop, s)}")
    return out


def main():
    if sys.argv[1] == "digests":
        for line in digests(sys.argv[2], int(sys.argv[3]), int(sys.argv[4])):
            print(line)
        return 0
    n = int(sys.argv[2]) if len(sys.argv) > 2 else 300
    props = sys.argv[3].split(",") if len(sys.argv) > 3 else ["C02", "C05", "C07", "C08", "C13", "C14"]
    total_bad = 0
    for prop in props:
        bad = 0
        a = digests(prop, 0, n)
        b = digests(prop, 0, n)
        if a != b:
            print("NONDETERMINISTIC in-process", prop)
            bad += 1
        ref = hashlib.sha1("\n".join(a).encode()).hexdigest()
        for hs in ("0", "12345", "random"):
            env = dict(os.environ, PYTHONHASHSEED=hs)
            r = subprocess.run([sys.executable, "-m", "tpsim.selftest", "digests", prop, "0", str(n)],
                               env=env, capture_output=True, text=True, timeout=600)
            got = hashlib.sha1(r.stdout.strip().encode()).hexdigest()
            if got != ref:
                lines = r.stdout.strip().split("\n")
                diff = [(x, y) for x, y in zip(a, lines) if x != y][:3]
                print("NONDETERMINISTIC fresh interpreter", prop, "PYTHONHASHSEED=" + hs, diff, r.stderr[-300:])
                bad += 1
        print(prop, "ok" if not bad else "BAD", ref[:12])
        total_bad += bad
    return 1 if total_bad else 0


if __name__ == "__main__":
    sys.exit(main())
