"""Directed scenario families per property (filled in below)."""


def units(prop, tier, seed):
    return ()


def exec_unit(prop, arg, agg, order):
    raise NotImplementedError
