"""SimLoop: a deterministic, single-threaded asyncio event loop driven one handle at a time.

* virtual clock (never reads a real clock, never sleeps, no selector, no threads)
* FIFO ready queue exactly as ``BaseEventLoop._run_once`` (timers that are due are appended
  after the handles that were already ready; one *iteration* = the handles ready at its start)
* every task is a :class:`SimTask` with a deterministic name and a seed-derived hash, so that
  iteration over ``set``s of tasks inside the code under test is a function of the seed
* the loop is never "run": the scheduler calls :meth:`begin_iteration` / :meth:`run_one`
  and may act between any two handles.
"""
from __future__ import annotations

import asyncio
import heapq
from asyncio import events

__all__ = ["SimLoop", "SimTask", "running"]


class SimTask(asyncio.Task):
    """asyncio.Task (C implementation underneath) with deterministic hash and name."""

    def __init__(self, coro, *, loop, name=None, context=None, sim_seq=0, sim_hash=0):
        # NB: must be set before Task.__init__, which registers self in a WeakSet (hashing it)
        self._sim_seq = sim_seq
        self._sim_hash = sim_hash
        self._sim_steps = 0
        if name is None:
            name = f"simtask-{sim_seq}"
        super().__init__(coro, loop=loop, name=name, context=context)

    def __hash__(self):
        return self._sim_hash

    def __eq__(self, other):
        return self is other


class running:
    """Context manager: make *loop* the running loop of this thread for the duration."""

    def __init__(self, loop):
        self.loop = loop

    def __enter__(self):
        self._old = events._get_running_loop()
        events._set_running_loop(self.loop)
        return self.loop

    def __exit__(self, *exc):
        events._set_running_loop(self._old)
        return False


class SimLoop(asyncio.BaseEventLoop):
    def __init__(self, hash_mask: int = 0):
        super().__init__()
        self._vtime = 0.0
        self._task_seq = 0
        self._hash_mask = hash_mask
        self.handles_run = 0
        self.iterations = 0
        self.exc_log = []          # contexts passed to call_exception_handler
        self.on_task_created = None  # callable(task, coro, creator_task)
        self.set_task_factory(SimLoop._factory)
        # hooks for the simulated network (set by tpsim.net)
        self.net = None

    # ------------------------------------------------------------------ clock
    def time(self):
        return self._vtime

    # ------------------------------------------------------------------ BaseEventLoop seams
    def _process_events(self, event_list):  # pragma: no cover - never called
        pass

    def _write_to_self(self):
        pass

    def call_exception_handler(self, context):
        ctx = dict(context)
        self.exc_log.append(ctx)

    @staticmethod
    def _factory(loop, coro, **kwargs):
        loop._task_seq += 1
        seq = loop._task_seq
        try:
            creator = asyncio.current_task(loop)
        except RuntimeError:
            creator = None
        task = SimTask(coro, loop=loop, sim_seq=seq, sim_hash=seq ^ loop._hash_mask, **kwargs)
        task._sim_creator = creator
        return task

    def create_task(self, coro, *, name=None, context=None):
        # the name is applied by BaseEventLoop.create_task *after* the factory returns
        task = super().create_task(coro, name=name, context=context)
        cb = self.on_task_created
        if cb is not None:
            cb(task, coro, getattr(task, "_sim_creator", None))
        return task

    # ------------------------------------------------------------------ stepping
    def _pop_cancelled_timers(self):
        sched = self._scheduled
        while sched and sched[0]._cancelled:
            self._timer_cancelled_count -= 1
            h = heapq.heappop(sched)
            h._scheduled = False

    def begin_iteration(self) -> int:
        """Start one loop iteration; returns how many handles it consists of (0 == idle)."""
        self._pop_cancelled_timers()
        sched = self._scheduled
        if not self._ready and sched:
            when = sched[0]._when
            if when > self._vtime:
                self._vtime = when
        end_time = self._vtime + self._clock_resolution
        while sched:
            h = sched[0]
            if h._when >= end_time:
                break
            heapq.heappop(sched)
            h._scheduled = False
            if h._cancelled:
                self._timer_cancelled_count -= 1
                continue
            self._ready.append(h)
        n = len(self._ready)
        if n:
            self.iterations += 1
        return n

    def run_one(self) -> bool:
        """Run the next ready handle. Returns False if it was a cancelled handle (not counted)."""
        h = self._ready.popleft()
        if h._cancelled:
            return False
        self.handles_run += 1
        self.in_handle = True
        owner = getattr(h._callback, "__self__", None)
        if isinstance(owner, SimTask):
            owner._sim_steps += 1        # (a handle whose callback is a task's step method: the task takes a step)
        try:
            h._run()
        finally:
            self.in_handle = False
        return True

    def is_idle(self) -> bool:
        if self._ready:
            return False
        self._pop_cancelled_timers()
        return not self._scheduled

    def run_until_idle(self, max_handles: int = 100000, after_handle=None) -> bool:
        """Run whole iterations until idle. Returns False if the cap was hit first."""
        budget = max_handles
        while True:
            n = self.begin_iteration()
            if n == 0:
                return True
            for _ in range(n):
                if self.run_one():
                    if after_handle is not None:
                        after_handle()
                    budget -= 1
            if budget <= 0:
                return False

    def finish(self):
        """Drop everything that is still scheduled and close the loop."""
        self._ready.clear()
        self._scheduled.clear()
        if not self.is_closed():
            self.close()


class LoopStalled(BaseException):
    """Raised by the watchdog inside code that keeps the loop busy within ONE handle for seconds of wall time."""


class Watchdog:
    """A single loop handle never legitimately takes seconds of CPU.  If the handle counter does not move between two
    ticks of an interval timer that counts this process's own CPU time (so a busy machine cannot trip it), the code
    running inside that handle is spinning: it is interrupted (so that the run can end) and the run is marked as
    stalled - a violation, not a harness error."""
    PERIOD = 5.0
    tripped = 0          # per process: once a run has stalled, further runs in this process are skipped (see Sim.execute)

    def __init__(self, sim):
        self.sim = sim
        self.last = None
        self.old = None

    def start(self):
        import signal
        import threading
        if threading.current_thread() is not threading.main_thread():
            return
        self.old = signal.signal(signal.SIGVTALRM, self._tick)
        signal.setitimer(signal.ITIMER_VIRTUAL, self.PERIOD, self.PERIOD)

    def stop(self):
        import signal
        if self.old is not None:
            signal.setitimer(signal.ITIMER_VIRTUAL, 0)
            signal.signal(signal.SIGVTALRM, self.old)
            self.old = None

    def _tick(self, signum, frame):
        sim = self.sim
        now = (sim.loop.handles_run, len(getattr(sim, 'events', ())))
        if now == self.last and getattr(sim.loop, "in_handle", False):
            sim.stalled = True
            Watchdog.tripped += 1
            self.last = None
            raise LoopStalled("no progress within one loop handle for %.0f s of CPU time" % self.PERIOD)
        self.last = now
