"""Evaluate (and optionally save) seeded changes written by sub-agents.

  ROUND=8 ANGLE="..." SAVE=0 python tools/seed_eval.py C01:1:15 C01:2:16 ...

For every PROP:k:outk it copies /repo/src and /repo/tests to a scratch directory, runs /tmp/wt/PROP/demo<k>.py on the
unchanged copy (must exit 0), applies /tmp/wt/PROP/patch<k>.diff, runs the unedited test suite (must pass) and the demo
(must fail), then `VERIF_REPO_SRC=<copy>/src ./check PROP --no-evidence`, and prints one line.  Without SAVE=0 a
confirmed change is stored as /verif/seeded/PROP-<outk>/ (patch.diff, demo.py, meta.json).  Never touches /repo.
"""
import ast, json, os, shutil, subprocess, sys, tempfile
ROUND=int(os.environ.get("ROUND","6"))
ANGLE=os.environ.get("ANGLE","told which ideas were taken; asked for breakage that depends on the earlier history of the same pool/server/queue/session")
MISSED6 = {"C19/1": "the restart step waited for the old serving task to be done; added the early restart (TCP: stop while clients are connected, serve_forever() again at once, the first life's clients leave later; both serving tasks must complete)",
           "C19/2": "no run ever started on a path holding a stale socket file; added the crash-residue fault stale_socket (a real AF_UNIX socket file left by a killed server) and asyncio's stale-socket removal in NetLoop.create_unix_server",
           "C12/2": "gather_never_returned / flush_never_returned were only tagged C08/C13; they are now also tagged C12 when a task or callback of that pool had raised (a second gather_and_close after one that raised must still collect and close)",
           "C09/2": "the before/after snapshot of a rejected request did not include what the NEXT accepted request is called; added: accepted start() calls separated only by rejected ones must get consecutive group indices",
           "C01/2": "pool_size was only re-assigned on a completely empty pool; C01 now also assigns while no task is in flight but spawners wait for room (at an idle point; afterwards only the limit oracles stay in force because the progress side is the recorded finding F-SIZE)",
           "C16/1": "C16 runs had no history; 50% of the shim runs now start with one (server stopped and started again, early or after a complete stop; earlier sessions that ended abruptly or never completed the handshake)"}
MISSED7 = {k: "initially missed - needs a size/value beyond what the runs reached; caught after the scale extensions (BigGen, ScaleGen thresholds around 64..1500/4100, threshold placement sweeps, queue/control scale families; see DESIGN.md section 8, round 7)" for k in
           ["C08/1", "C08/2", "C06/2", "C14/1", "C14/2", "C07/1", "C07/2", "C09/1", "C09/2", "C01/1", "C01/2", "C02/1", "C02/2", "C12/1", "C13/2", "C15/1", "C15/2",
            "C16/1", "C16/2", "C17/1", "C17/2", "C18/1", "C18/2", "C19/1", "C19/2", "C20/1", "C20/2"]}
MISSED8 = {"C03/2": "lives in what used to be an excluded zone (a worker that requests its own cancellation in its last statement and returns); C03 runs now explore it when the end callback cannot suspend (see DESIGN.md section 8, round 8)",
           "C04/1": "the after-cancel oracles (call/task after the group was cancelled) were tagged C07 only; for apply/start requests they are now also C04 ('only cancelling the group stops the remainder')",
           "C05/1": "starmap elements were tuples, one-shot iterators, empty tuples or non-iterables; str and bytes elements added (func(*'ab') is func('a','b'))",
           "C09/1": "the argument iterables were generators (iter() of a generator is unobservable); the re-iterable container now reports an iter() made inside a request that ends up rejected",
           "C15/2": "pool_size was never assigned after the pool had been closed; 20% of the size-family runs now close the pool and assign a negative and a valid value",
           "C17/2": "workers did not look at Task.cancelling(); the count seen in the CancelledError handler is now part of the twin comparison (an id named twice is two requests)",
           "C18/2": "workers never printed; 30% of the C18 runs have workers that print to the console: every line must arrive there, none in a reply",
           "C19/1": "nothing compared the number of requests the bundled client made with what was typed; added cli_requests (blank lines are not requests) for runs in which the server is never stopped",
           "C20/1": "blocks were left normally, by Exception or by cancellation; added exits by a BaseException that is neither, and by closing an async generator that yields inside the block (GeneratorExit)"}
MISSED9 = {"C04/2": "a cancel() landing after the task's first step but before its worker's first statement (a yield added at the top of the wrapper) looked, to the harness, exactly like the recorded finding F-EARLY and was steered around; the loop now counts task steps, and only a task that has never stepped counts as the F-EARLY trigger",
           "C18/2": "no C18 run stopped the server while a command was still waiting; 40% of the parked-waiter runs now cancel the serving task before the line that ends the wait (lines sent before the stop must still be answered; the closed state is probed through the public API)",
           "C16/1": "the extended class had no member with an unresolvable forward reference as RETURN annotation (the parser never needs return annotations); added make_report() -> 'Report'"}
ENV10 = "depends on a process-level setting outside the schedule/input space; now varied: "
MISSED10 = {"C01/2": ENV10 + "every check also runs every 9th unit in an interpreter started with -O",
            "C03/2": ENV10 + "every check also runs every 9th unit in an interpreter started with -O",
            "C06/2": ENV10 + "every check also runs every 9th unit in an interpreter started with -O",
            "C05/2": ENV10 + "12% of the runs treat the library's own warnings as errors (-W error)",
            "C12/1": ENV10 + "12% of the runs treat the library's own warnings as errors (-W error)",
            "C16/1": ENV10 + "the control runs now also enable the library's logger at DEBUG/INFO in a third of the runs (the pool runs already did)",
            "C02/1": "callbacks always returned None; plain callbacks that hand back a pending future (fire-and-forget) added",
            "C03/1": "callbacks always returned None; plain callbacks that hand back a pending future (fire-and-forget) added",
            "C04/1": "workers were plain functions, marked factories or bound methods; a functools.wraps-decorated coroutine function whose wrapper injects an argument added",
            "C09/2": "the non-coroutine samples lacked a plain function that merely WRAPS a coroutine function (functools.wraps)",
            "C05/1": "the sized argument container reported its true length; a container whose len() is not the element count added",
            "C11/2": "needs a group cancelling itself from inside its own argument iterator (directed family OWN-ITER); the family now also runs for C11 (ids dense and ordered there too)",
            "C12/2": "the TypeError raised by the *args callback now reads like the interpreter's own arity error; being called again is also a C12 violation",
            "C15/1": "hides in the shadow of recorded finding F-LOCK (lock while an apply spawner waits); C15 now also gets unsteered F-LOCK runs, whose end-of-run pool_size read stays strict",
            "C15/2": "-inf added to the negative sizes",
            "C17/1": "dotted paths never named a package attribute that shadows a same-named sub-module; fixture tpsim/ctlpkg added",
            "C18/1": "no generated line had a long identifier run followed by ':' in a callable position (regex backtracking bait); added, and the watchdog reports the stall",
            "C18/2": "no client half-closed right after pipelined lines; scripted clients added, a half-closed client must RECEIVE every reply (replies_lost_after_eof)",
            "C20/1": "every block was entered and left by the same task; a block entered by a helper task and left by the consumer added"}
NOTCAUGHT10 = {"C10/1": "NOT DETECTED: needs a group that cancels itself from inside its own argument iterator and keeps yielding; C07's quantifier excludes that, the unchanged code itself keeps starting tasks for such a group when no suspension intervenes, so group bookkeeping in that zone is outside what the properties fix (the OWN-ITER family only keeps slot accounting and id density strict there)",
               "C10/2": "NOT DETECTED: same excluded zone as C10-17 (self-cancellation from the group's own argument iterator, then re-use of the name from inside that iterator)",
               "C13/1": "NOT DETECTED: needs flush() awaited from inside a task's own callback; on the unchanged code that call never returns (the task would gather itself), so there is no reference behaviour to compare with and the generators do not go there"}
MISSED11 = {"C04/1": "the breakage (a spawner that waits for room is never woken once pool_size has been assigned, because the setter installs a NEW semaphore) needs an assignment while spawners wait - the region of recorded finding F-SIZE, which C04's runs never enter; it is caught by ./check C15 (new oracle waiter_never_woken: after such an assignment, once a task has ended, whoever waited must have been woken), so C15 is listed as the detecting check",
            "C11/2": "pools were only ever instances of TaskPool / SimpleTaskPool; pools of factory-made subclasses that share one __name__ added",
            "C15/2": "nothing said that an assignment must not disturb the tasks that are running; end callbacks missing after an assignment are now also a C15 violation (running_task_disturbed)",
            "C16/2": "the extended class had no parameter with an unhashable annotation; Annotated[int, <eq-only object>] added",
            "C17/1": "no literal was valid both as Python and as JSON with different meanings; [\"a\\/b\", ...] added",
            "C18/1": "no junk token named an existing file with non-UTF-8 content behind an '@'; fixture tpsim/fixtures/latin1.txt added",
            "C19/1": "SimTransport.write_eof() never failed; it now raises ENOTCONN when the peer is already gone and this end has not been told yet, as shutdown(SHUT_WR) does",
            "C20/2": "only asyncio_taskpool's Queue itself was used; user subclasses mixing in asyncio.PriorityQueue / LifoQueue (either base order) added"}
MISSED12 = {"C03/2": "the callbacks were functions, bound methods, partials and plain callable objects - never an object that only asyncio.iscoroutinefunction() (not inspect's) recognises as a coroutine function; added callback kinds ak/gk/axk: an instance with a plain __call__ that returns a coroutine, tagged with asyncio's _is_coroutine marker (as unittest.mock.AsyncMock is)",
            "C04/2": "every marked function handed back a native coroutine object; added function kind 'abc': the marked function returns a collections.abc.Coroutine that is not a native coroutine (delegating wrapper)",
            "C07/2": "C07's runs had no oracle for its last clause (pending requests of other groups keep progressing): every progress observation (C04/C05 oracles) is now also charged to C07 as sibling_progress:* when a group was cancelled in that pool (outside the regions of the recorded findings F-EARLY/F-LOCK), and the phased scenarios cancel whole groups while flush()/gather_and_close() calls are waiting",
            "C09/1": "the ledger filed an accepted request under the name the pool RETURNED, so a request whose explicit name was silently replaced never made that name 'taken'; the requested name now counts as taken as well, and duplicate attempts prefer the empty string when a group of that name is live",
            "C12/2": "workers failed with plain exceptions only; added worker outcomes xg/xm: a BaseExceptionGroup that carries a CancelledError (alone, or next to an ordinary error) - nobody cancelled the task, it failed, and flush()/gather_and_close() must raise that very object",
            "C16/2": "every extra member had a real docstring or none; the extended class now also has a method whose docstring is the empty string and a property whose docstring is whitespace only",
            "C19/2": "the stop was requested exactly once; the stop step may now cancel the serving task twice, or once more later while clients keep the server waiting, and a serving task that ends as CANCELLED is a violation (usage/example_server.py awaits the task after cancelling it)",
            "C20/2": "queue items were the running numbers (all true); items are now arbitrary distinct user values: every fourth a false-valued object, and 0, '', None, (), b'' once each"}
MISSED13 = {"C05/1": "every starmap/doublestarmap element was an instance of the collections ABCs; added elements that `*`/`**` accept although they are no Iterable/Mapping: the old sequence protocol (__getitem__/__len__ only) and an object with keys() + __getitem__ (a database row)",
            "C16/1": "no public member of the generated subclasses had a bool parameter that defaults to True; the extended class now has one (`drain(graceful: bool = True, ...)`)",
            "C16/2": "socket paths were always absolute and the simulated bind() accepted any length; a share of the unix runs now uses a short RELATIVE socket path from inside a deep working directory, and SimNet enforces the sun_path limit (107 bytes) on the path as given",
            "C17/1": "argument literals never had a bracket character inside a string; added ('(',), ['[x'], ('}', ')'), ('a]', 1)",
            "C17/2": "get-group-ids was only asked for groups with small task ids, whose set prints in ascending order; added programs with 9-33 one-task groups followed by get-group-ids over several of them ({8, 1} does not print ascending)"}
MISSED14 = {"C03/2": "workers only failed with exceptions of their own; added worker outcome xl: the worker uses the pool itself (cancel() of a task that is inside its cancel callback / has ended / never existed) and does not handle the documented error - AlreadyCancelled, AlreadyEnded or InvalidTaskID is then the task's failure, nobody cancelled it",
            "C06/1": "cancel()/cancel_group()/cancel_all() were never given msg=, and the warnings-as-errors knob only covered warnings attributed to the library's own modules; the cancel steps now pass msg= in a quarter of the cases and the knob also turns UserWarning/DeprecationWarning attributed to the caller (warnings.warn(..., stacklevel=3)) into errors",
            "C06/2": "ids were always ints; cancel steps now also name ids that are no ints: None, '3', 7.5 and a float equal to an id",
            "C07/2": "as C06/1: msg= for cancel_group/cancel_all and the broader warnings-as-errors knob",
            "C09/1": "the not-a-coroutine-function inputs all had a one-piece repr; added a (function, argument) pair - whoever formats the error message with % must cope with a tuple",
            "C09/2": "every request was made under a running event loop; rejected requests (locked/closed pool, not a coroutine function) are now also made by synchronous code with no running loop - the check comes before anything needs a loop",
            "C12/1": "raising callbacks were closures only; the raising kinds now also come as partial, callable object, bound method and marked object (no __name__)",
            "C16/2": "C16 only asked for help; the extra members that need no argument are now also called once (among them a synchronous method that hands back a pending awaitable) and each must be answered at once, and so must the command after them",
            "C17/1": "no dotted path had a component with a leading underscore; added tpsim.ctlworkers._hidden",
            "C18/2": "workers of the control simulation never failed; a gate can now be resolved with an exception, so flush / gather-and-close without --return-exceptions have an error to answer with",
            "C19/2": "the bundled client only ever received short replies; a share of its scripts now starts with commands answered by several KiB (1200 task ids), followed by ordinary ones - every reply must be printed under its own command"}
MISSED15 = {"C08/1": "every callback was hashable; added callback kind su: a callable object that defines __eq__ and therefore has no __hash__",
            "C11/1": "the id parameter of a callback never had a default value; added callback kinds sd/ad/gd (`def cb(task_id=-1)`): the id is passed all the same"}
NOTCAUGHT15 = {"C11/2": "not a C11 matter: C11 fixes ids, names and the id passed to callbacks, not what get_group_ids() reports; the change (one id set shared by all group registers) is caught by ./check C10 (group_ids), which is listed as the detecting check",
               "C14/1": "the same edit as C01-27 and C15-27 (a yield before the register's lock): it widens the window in which a task can be cancelled before its first step, i.e. it reaches the recorded finding F-EARLY in more schedules; C14's runs treat such a cancellation as F-EARLY (steered in clean runs, tolerated in unsteered ones), so C14 does not report it - the leaked slot is reported by ./check C01 (is_full) and ./check C02 (capacity), which are listed as the detecting checks"}
MISSED = MISSED15 if ROUND == 15 else MISSED14 if ROUND == 14 else MISSED13 if ROUND == 13 else MISSED12 if ROUND == 12 else MISSED11 if ROUND == 11 else MISSED10 if ROUND == 10 else MISSED9 if ROUND == 9 else MISSED8 if ROUND == 8 else MISSED7 if ROUND == 7 else MISSED6 if ROUND == 6 else {} if ROUND != 5 else {"C01/1": "the pool generator never assigned pool_size to an empty pool; added the resize_idle step (size assigned while the pool is empty, all C01 oracles continue with the new size)",
          "C03/2": "callbacks were always closures; added callbacks that are bound methods of an object nothing else refers to (kinds sm/am/gm)",
          "C04/1": "the injected factory failure was always a FactoryError; the exception type now varies (FactoryError, TypeError, ValueError, KeyError, AttributeError)",
          "C04/2": "payload keyword names were always kw_x; added payload shapes whose keyword names coincide with the library's own parameter names (group_name, func, num, end_callback, self, args, kwargs ...)",
          "C11/1": "pools were never given the empty name; name='' is now generated and counted as unnamed (distinct names required)",
          "C12/2": "no oracle said that gather_and_close()/flush() must raise when a covered task had failed; added exception_swallowed plus the phased scenario generator (calls started while tasks sit in every stage, then released with seeded outcomes)",
          "C15/2": "the size family only assigned pool_size to busy pools; added the idle-assignment variant (assignment on the empty pool, then work; second phase back to another size) with oracle assigned_limit_in_force",
          "C16/1": "SimNet only had IPv4-style 2-tuple socket names; hosts '::1' / 'fe80::1%eth0' now give 4-tuple peer and socket names",
          "C16/2": "the extended class had no public staticmethod; added slots_for"}
NOTCAUGHT = NOTCAUGHT15 if ROUND == 15 else NOTCAUGHT10 if ROUND == 10 else {} if ROUND != 5 else {"C11/2": "NOT DETECTED: needs asyncio.eager_task_factory as the loop's task factory; SimLoop always uses its own (lazy) task factory, eager start is a loop configuration the simulator does not offer (DESIGN.md section 9)"}
def run(prop, k, outk):
    wt = f"/tmp/wt/{prop}"
    S = tempfile.mkdtemp(prefix="seedchk-")
    try:
        shutil.copytree("/repo/src", S + "/src"); shutil.copytree("/repo/tests", S + "/tests")
        env = dict(os.environ, PYTHONPATH=S + "/src", PYTHONDONTWRITEBYTECODE="1")
        o = subprocess.run(["/venv/bin/python", f"{wt}/demo{k}.py"], env=env, capture_output=True, timeout=120, cwd=S).returncode
        r = subprocess.run(["patch", "-p1", "-s", "-i", f"{wt}/patch{k}.diff"], cwd=S, capture_output=True, text=True)
        assert r.returncode == 0, r.stdout + r.stderr
        t = subprocess.run(["/venv/bin/python", "-m", "pytest", "-q", "-p", "no:cacheprovider", "tests"], env=env, capture_output=True, text=True, cwd=S, timeout=600)
        m = subprocess.run(["/venv/bin/python", f"{wt}/demo{k}.py"], env=env, capture_output=True, timeout=120, cwd=S).returncode
        c = subprocess.run(["/verif/check", prop, "--no-evidence"], env=dict(os.environ, VERIF_REPO_SRC=S + "/src"), capture_output=True, text=True, timeout=3600)
        first = next((ln for ln in c.stdout.split("\n") if ln.startswith("violation ")), "")
    finally:
        shutil.rmtree(S, ignore_errors=True)
    key = f"{prop}/{k}"
    print(key, "demo_orig", o, "tests", t.returncode, "demo_mut", m, "check_exit", c.returncode, first[:160], flush=True)
    if not (o == 0 and t.returncode == 0 and m != 0):
        print("   NOT CONFIRMED - not saved"); return
    if os.environ.get("SAVE", "1") == "0":
        return
    doc = ast.get_docstring(ast.parse(open(f"{wt}/demo{k}.py").read())) or ""
    caught = f"./check {prop} (quick): {first[:200]}" if c.returncode == 1 else NOTCAUGHT.get(key, "NOT DETECTED")
    if key in MISSED and c.returncode == 1:
        caught = "initially missed - " + MISSED[key] + "; now " + caught
    d = f"/verif/seeded/{prop}-{outk}"
    os.makedirs(d, exist_ok=True)
    shutil.copy(f"{wt}/patch{k}.diff", d + "/patch.diff"); shutil.copy(f"{wt}/demo{k}.py", d + "/demo.py")
    meta = {"id": f"{prop}-{outk}", "properties": [prop], "breaks": prop, "round": ROUND,
            "source": "independent sub-agent (given only the property text and a scratch worktree; round " + str(ROUND) + ": " + ANGLE + ")",
            "needs_to_manifest": " ".join(doc.split())[:900],
            "confirmed": "patch applies to a copy of /repo/src; unedited test suite passes (112); demo.py exits 0 without and non-zero with the change; `VERIF_REPO_SRC=<copy>/src ./check <id>` run on the copy",
            "detected": c.returncode == 1, "caught_by": caught}
    json.dump(meta, open(d + "/meta.json", "w"), indent=1)
for a in sys.argv[1:]:
    prop, k, outk = a.split(":")
    run(prop, int(k), int(outk))
