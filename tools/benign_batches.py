"""False-alarm regression in batches: property-preserving changes compose, so the benign diffs (mutants/benign-*.diff and
mutants/benign-agents/*.diff) are packed greedily into as few scratch trees as apply cleanly together, and all 20 quick
checks run once per tree.  A batch that raises an alarm is split and re-run diff by diff (that is then the slow path
of `python -m tpsim.mutate --benign` / mutants/run_benign_agents.sh).
usage: python tools/benign_batches.py [--part i/n] [--props C01,C02,...]"""
import glob, os, shutil, subprocess, sys, tempfile

HERE = os.path.dirname(os.path.dirname(os.path.abspath(__file__)))
# two agent diffs that are NOT property-preserving (C14 flags them, see DESIGN.md section 8): kept out of the batches
EXCLUDE = {"B1-5.diff", "B4-1.diff"}
PROPS = ["C%02d" % i for i in range(1, 21)]


def applies(tree, diff, commit):
    args = ["patch", "-p1", "-s", "-f", "-F0", "-i", diff]
    r = subprocess.run(args + ["--dry-run"], cwd=tree, capture_output=True, text=True)
    if r.returncode != 0 or "offset" in r.stdout or "fuzz" in r.stdout:
        return False
    if commit:
        subprocess.run(args, cwd=tree, check=True, capture_output=True)
    return True


def main():
    part = None
    props = PROPS
    a = sys.argv[1:]
    while a:
        k = a.pop(0)
        if k == "--part":
            part = tuple(int(x) for x in a.pop(0).split("/"))
        elif k == "--props":
            props = a.pop(0).split(",")
    diffs = sorted(glob.glob(HERE + "/mutants/benign-*.diff")) + sorted(glob.glob(HERE + "/mutants/benign-agents/*.diff"))
    diffs = [d for d in diffs if os.path.basename(d) not in EXCLUDE]
    batches = []       # (tree, [names])
    for d in diffs:
        for tree, names in batches:
            if applies(tree, d, True):
                names.append(os.path.basename(d))
                break
        else:
            tree = tempfile.mkdtemp(prefix="tpbb-")
            shutil.copytree("/repo/src", tree + "/src")
            if not applies(tree, d, True):
                print("PATCH-FAILED", os.path.basename(d), flush=True)
                shutil.rmtree(tree)
                continue
            batches.append((tree, [os.path.basename(d)]))
    print(f"{len(diffs)} diffs in {len(batches)} batches", flush=True)
    bad = 0
    try:
        for i, (tree, names) in enumerate(batches):
            if part and i % part[1] != part[0]:
                continue
            alarms = []
            for p in props:
                r = subprocess.run([HERE + "/check", p, "--no-evidence"], env=dict(os.environ, VERIF_REPO_SRC=tree + "/src"),
                                   capture_output=True, text=True)
                if r.returncode != 0:
                    first = next((ln for ln in r.stdout.split("\n") if ln.startswith(("violation", "HARNESS"))), r.stdout[-200:])
                    alarms.append(f"{p}[{first[:200]}]")
            print(f"batch {i} ({len(names)}): {' '.join(names)}: {'clean' if not alarms else 'ALARM ' + ' '.join(alarms)}", flush=True)
            bad += bool(alarms)
    finally:
        for tree, _ in batches:
            shutil.rmtree(tree, ignore_errors=True)
    print("BATCHESDONE", "alarms in", bad, "batches", flush=True)
    return 1 if bad else 0


if __name__ == "__main__":
    sys.exit(main())
