"""Example of how kept diffs were re-based after a repair in /repo (here: fix 2509cc8): apply each diff to the tree BEFORE the
repair, repeat the repair edit textually on the patched files, and diff the result against the repaired tree.  Edit OLD and
transform() for another repair.  usage: python tools/rebase_after_fix.py seeded/C04-10/patch.diff ...  (output in /tmp/rebased2/)"""
import os, re, shutil, subprocess, sys, tempfile
OLD = "/tmp/old2-t7j7"
BLOCK = '''        # Not every callable has a `__name__` (e.g. a `functools.partial`).
        func_name = getattr(
            coroutine_function,
            "__name__",
            type(coroutine_function).__name__,
        )
'''
def transform(text):
    pairs = [('                    func.__name__,\n', '                    getattr(func, "__name__", type(func).__name__),\n'),
             ('        return self._func.__name__\n', '        return getattr(self._func, "__name__", type(self._func).__name__)\n'),
             ('                    self._func.__name__,\n', '                    getattr(self._func, "__name__", type(self._func).__name__),\n')]
    for a, b in pairs:
        text = text.replace(a, b)
    return text
for f in sys.argv[1:]:
    T = tempfile.mkdtemp(prefix="rbt-")
    shutil.copytree(OLD + "/src", T + "/src")
    r = subprocess.run(["patch", "-p1", "-s", "-f", "-d", T, "-i", "/verif/" + f], capture_output=True, text=True)
    assert r.returncode == 0, (f, r.stdout)
    p = T + "/src/asyncio_taskpool/pool.py"
    _src = open(p).read(); open(p, "w").write(transform(_src))
    N = tempfile.mkdtemp(prefix="rbn-")
    shutil.copytree("/repo/src", N + "/a/src")
    shutil.copytree(T + "/src", N + "/b/src")
    d = subprocess.run(["diff", "-ruN", "-x", "*.egg-info", "-x", "__pycache__", "-x", "*.orig", "-x", "*.rej", "a/src", "b/src"], cwd=N, capture_output=True, text=True).stdout
    out = []
    for l in d.split("\n"):
        if l.startswith("diff -ruN"):
            a = l.split()[2]
            out.append(f"diff --git {a} b/{a[2:]}")
            continue
        m = re.match(r"^(---|\+\+\+) ([ab]/src/\S*)", l)
        out.append(f"{m.group(1)} {m.group(2)}" if m else l)
    os.makedirs("/tmp/rebased2", exist_ok=True)
    dst = "/tmp/rebased2/" + f.replace("/", "_")
    open(dst, "w").write("\n".join(out))
    # sanity: compiles, applies to /repo/src
    subprocess.run(["/venv/bin/python", "-m", "py_compile", p], check=True)
    S = tempfile.mkdtemp(prefix="rbs-"); shutil.copytree("/repo/src", S + "/src")
    r = subprocess.run(["patch", "-p1", "-s", "-f", "-F0", "-d", S, "-i", dst], capture_output=True, text=True)
    print(f, "ok" if r.returncode == 0 else "FAILED " + r.stdout)
    for x in (T, N, S):
        shutil.rmtree(x)
